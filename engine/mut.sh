#!/bin/sh
# developer helper: mut.sh <prop> <relative file> <python-replace-old> <new>   (scratch worktree /tmp/mut)
prop=$1; file=$2; old=$3; new=$4
[ -d /tmp/mut ] || git -C /repo worktree add -f /tmp/mut HEAD >/dev/null 2>&1
git -C /tmp/mut checkout -q -- .
git -C /tmp/mut checkout -q --detach $(git -C /repo rev-parse HEAD) || exit 8
python3 - "$file" "$old" "$new" <<'PY'
import sys
p='/tmp/mut/'+sys.argv[1]; s=open(p).read()
n=s.count(sys.argv[2])
if n<1: print("MUTATION DID NOT APPLY"); sys.exit(1)
s=s.replace(sys.argv[2],sys.argv[3],1); open(p,'w').write(s)
PY
[ $? = 0 ] || exit 9
VERIF_REPO=/tmp/mut /verif/bin/check $prop 2>&1 | grep -E "VIOLATION|OK property|UNDECIDED" | cut -c1-220 | head -${MUT_LINES:-4}
git -C /tmp/mut checkout -q -- .
