/* Native replay support: the unit TU (the real repo code + harness) is compiled by gcc/g++
 * with ASan/UBSan; harness inputs declared through IN()/IN_ARR() are loaded from the values
 * that cbmc's counterexample trace assigned to them.  Contract clauses are verifier-only. */
#ifndef VERIF_NATIVE_H
#define VERIF_NATIVE_H
#include <stdio.h>
#include <stdlib.h>
#include <string.h>
#include <stdbool.h>

#ifdef __cplusplus
extern "C" {
#endif
static int verif_native_failed;
static void verif_load(const char *name, void *dst, size_t size)
{
    const char *p = getenv("VERIF_INPUTS_FLAT");
    memset(dst, 0, size);
    if (!p) return;
    FILE *f = fopen(p, "r");
    if (!f) return;
    char nm[256]; unsigned long off; static char hex[1 << 16];
    while (fscanf(f, "%255s %lu %65535s", nm, &off, hex) == 3) {
        if (strcmp(nm, name)) continue;
        size_t n = strlen(hex) / 2;
        for (size_t i = 0; i < n && off + i < size; i++) {
            unsigned b; sscanf(hex + 2 * i, "%2x", &b);
            ((unsigned char *)dst)[off + i] = (unsigned char)b;
        }
    }
    fclose(f);
}
#ifdef __cplusplus
}
#endif

#define IN(T, name) T name; verif_load(#name, &name, sizeof(name))
#define IN_BOOL(name) bool name; { unsigned char verif_b_; verif_load(#name, &verif_b_, 1); name = verif_b_ != 0; }
#define IN_ARR(T, name, N) T name[N]; verif_load(#name, name, sizeof(name))
#define GIN(name) verif_load(#name, &name, sizeof(name))

#define __CPROVER_assert(c, msg) do { if (!(c)) { fprintf(stderr, "NATIVE-REPLAY ASSERT FAILED: %s\n", msg); verif_native_failed = 1; } } while (0)
#define __CPROVER_assume(c) do { if (!(c)) { fprintf(stderr, "NATIVE-REPLAY: input does not satisfy harness assumption %s; inconclusive\n", #c); exit(3); } } while (0)
#define __CPROVER_cover(c) do { } while (0)
#define __CPROVER_havoc_object(p) do { } while (0)

#define VERIF_STR2(x) #x
#define VERIF_STR(x) VERIF_STR2(x)
#ifdef __cplusplus
#define VERIF_MAIN() extern "C" void VERIF_HARNESS(void); int main(void) { VERIF_HARNESS(); if (verif_native_failed) { fprintf(stderr, "NATIVE-REPLAY: violation reproduced on the real code (%s)\n", VERIF_STR(VERIF_HARNESS)); return 1; } fprintf(stderr, "NATIVE-REPLAY: no violation observed\n"); return 0; }
#else
#define VERIF_MAIN() void VERIF_HARNESS(void); int main(void) { VERIF_HARNESS(); if (verif_native_failed) { fprintf(stderr, "NATIVE-REPLAY: violation reproduced on the real code (%s)\n", VERIF_STR(VERIF_HARNESS)); return 1; } fprintf(stderr, "NATIVE-REPLAY: no violation observed\n"); return 0; }
#endif
#endif
