#!/usr/bin/env python3
"""verif engine: contract-based deductive verification of /repo with CBMC 6.11.

  check <PROP> [--tier quick|thorough]     run every harness serving PROP
  check --replay <file>                    re-run the native replay recorded in a replay file
  check --unit <unit> [--harness h]        developer: run one unit / harness, verbose

Exit codes: 0 property held on everything explored; 1 violation (VIOLATION line);
2 undecided (tool failure, timeout, vacuity guard tripped) -- never reported as violation.
"""
import concurrent.futures as cf
import glob
import hashlib
import json
import os
import re
import resource
import shutil
import subprocess
import sys
import tempfile
import time

VERIF = os.path.dirname(os.path.dirname(os.path.abspath(__file__)))
REPO = os.environ.get("VERIF_REPO", "/repo")
SCRATCH_ROOT = os.environ.get("VERIF_SCRATCH", "/var/tmp")
IFACE_CHECKED = {}
JOBS = int(os.environ.get("VERIF_JOBS", str(os.cpu_count() or 4)))
MEM_KB = int(os.environ.get("VERIF_MEM_KB", str(12 * 1024 * 1024)))
VERBOSE = os.environ.get("VERIF_VERBOSE", "0") != "0"
KEEP = os.environ.get("VERIF_KEEP", "0") != "0"

CHECK_FLAGS = ["--bounds-check", "--pointer-check", "--pointer-overflow-check",
               "--signed-overflow-check", "--div-by-zero-check",
               "--pointer-primitive-check", "--drop-unused-functions", "--slice-formula",
               "--no-malloc-may-fail", "--object-bits", "12"]


class Undecided(Exception):
    pass


def log(*a):
    print(*a, file=sys.stderr, flush=True)


def build_include():
    p = os.path.join(REPO, "_build", "include")
    if os.path.exists(os.path.join(p, "config.h")):
        return p, "repo _build/include/config.h"
    return os.path.join(VERIF, "stubs", "build_include"), "fallback copy /verif/stubs/build_include/config.h (no _build in repo)"


def _limits():
    resource.setrlimit(resource.RLIMIT_AS, (MEM_KB * 1024, MEM_KB * 1024))


def run(cmd, timeout, cwd=None, stdout_path=None):
    """run a tool under timeout and address-space limit; returns (rc, out, err, secs)"""
    t0 = time.time()
    so = open(stdout_path, "wb") if stdout_path else subprocess.PIPE
    try:
        p = subprocess.run(cmd, cwd=cwd, stdout=so, stderr=subprocess.PIPE, timeout=timeout,
                           preexec_fn=_limits)
        rc, out, err = p.returncode, (b"" if stdout_path else p.stdout), p.stderr
    except subprocess.TimeoutExpired as e:
        rc, out, err = -999, b"", (e.stderr or b"") + b"\nTIMEOUT"
    finally:
        if stdout_path:
            so.close()
    return rc, out.decode("utf8", "replace"), err.decode("utf8", "replace"), time.time() - t0


# ----------------------------------------------------------------------------------------
# extraction of function definitions from C++ (and C) files: CXX-FN route
# ----------------------------------------------------------------------------------------

def _skip_ws_comments(src, i):
    n = len(src)
    while i < n:
        if src[i] in " \t\r\n":
            i += 1
        elif src.startswith("//", i):
            j = src.find("\n", i)
            i = n if j < 0 else j + 1
        elif src.startswith("/*", i):
            j = src.find("*/", i + 2)
            i = n if j < 0 else j + 2
        else:
            break
    return i


def match_brace(src, i):
    """src[i] == '{' ; returns index just after the matching '}' (comment/string/char aware)"""
    assert src[i] == "{"
    depth = 0
    n = len(src)
    while i < n:
        c = src[i]
        if src.startswith("//", i):
            j = src.find("\n", i)
            i = n if j < 0 else j
            continue
        if src.startswith("/*", i):
            j = src.find("*/", i + 2)
            i = n if j < 0 else j + 2
            continue
        if c == '"' or c == "'":
            q = c
            i += 1
            while i < n and src[i] != q:
                if src[i] == "\\":
                    i += 1
                i += 1
            i += 1
            continue
        if c == "{":
            depth += 1
        elif c == "}":
            depth -= 1
            if depth == 0:
                return i + 1
        i += 1
    raise Undecided("unbalanced braces during extraction")


def blank_comments_strings(src):
    """same-length copy with comments and string/char literal contents blanked (newlines kept)"""
    out = list(src)
    i, n = 0, len(src)
    while i < n:
        if src.startswith("//", i):
            j = src.find("\n", i)
            j = n if j < 0 else j
            for k in range(i, j):
                out[k] = " "
            i = j
        elif src.startswith("/*", i):
            j = src.find("*/", i + 2)
            j = n if j < 0 else j + 2
            for k in range(i, j):
                if out[k] != "\n":
                    out[k] = " "
            i = j
        elif src[i] in "\"'":
            q = src[i]
            j = i + 1
            while j < n and src[j] != q:
                if src[j] == "\\":
                    j += 1
                j += 1
            for k in range(i + 1, min(j, n)):
                if out[k] != "\n":
                    out[k] = " "
            i = j + 1
        else:
            i += 1
    return "".join(out)


def find_function_defs(src, name, sig=None):
    """locate definitions `... name ( params ) [const] [: inits] {` at file scope.
    name may be qualified (A::f).  sig: optional regex that the parameter text must match.
    Returns list of (start_of_decl, body_open, end)"""
    blank = blank_comments_strings(src)
    res = []
    pat = re.compile(r"(?<![\w:~])" + re.escape(name) + r"\s*\(")
    for m in pat.finditer(blank):
        # find the matching ')'
        i = m.end() - 1
        depth = 0
        j = i
        while j < len(blank):
            if blank[j] == "(":
                depth += 1
            elif blank[j] == ")":
                depth -= 1
                if depth == 0:
                    break
            j += 1
        params = blank[i + 1:j]
        k = j + 1
        # after ')': optional const / noexcept / ctor-initialisers, then '{'
        mm = re.match(r"\s*(const)?\s*(:[^;{]*)?\{", blank[k:])
        if not mm:
            continue
        body_open = k + mm.end() - 1
        # must be at brace depth 0 (file scope / namespace-less): count braces before
        pre = blank[:m.start()]
        if pre.count("{") != pre.count("}"):
            continue
        # start of the declaration: after the previous ';' or '}' or preprocessor line
        s = m.start()
        while s > 0 and blank[s - 1] not in ";}":
            s -= 1
        # skip leading whitespace / preprocessor lines
        seg = src[s:m.start()]
        lines = seg.split("\n")
        off = 0
        keep_from = 0
        for ln in lines:
            if ln.strip().startswith("#") or ln.strip() == "":
                off += len(ln) + 1
                keep_from = off
            else:
                break
        s = s + min(keep_from, len(seg))
        s = _skip_ws_comments(src, s)
        if sig is not None and not re.search(sig, re.sub(r"\s+", " ", params)):
            continue
        end = match_brace(src, body_open)
        res.append((s, body_open, end))
    return res


def extract_functions(path, specs, preamble="includes", auto_helpers=False):
    """specs: list of {"name":..., "sig": regex|None, "rename": newname|None}
    returns text: preamble (+ #line'd function texts).  must-fire: exactly one match each."""
    src = open(path, encoding="utf8", errors="replace").read()
    out = []
    dropped = []
    if preamble == "includes":
        # every preprocessor line / file-scope text that precedes the first function body
        blank = blank_comments_strings(src)
        m = re.search(r"\)\s*(const)?\s*(:[^;{]*)?\{", blank)
        first = len(src)
        if m:
            s = m.start()
            while s > 0 and blank[s - 1] not in ";}":
                s -= 1
            # never cut before the last preprocessor line that precedes the first function
            pp = [mm.end() for mm in re.finditer(r"(?m)^[ \t]*#[^\n]*\n", blank[:m.start()])]
            if pp and pp[-1] > s:
                s = pp[-1]
            first = s
        pre = src[:first]
        # do not cut in the middle of a preprocessor conditional: keep only complete lines
        out.append('#line 1 "%s"\n' % path)
        out.append(pre)
        out.append("\n")
    elif preamble == "none":
        pass
    taken = []
    for sp in specs:
        defs = find_function_defs(src, sp["name"], sp.get("sig"))
        if len(defs) != 1:
            raise Undecided("extraction must-fire rule: %s in %s matched %d definitions (need exactly 1)"
                            % (sp["name"], path, len(defs)))
        s, bo, e = defs[0]
        taken.append((s, e, sp["name"]))
    if auto_helpers:
        # follow the extracted text into the file's own helpers: static functions and object-like / function-like macros defined at
        # file scope in the same file and named in text already taken (to a fixpoint), so that a helper introduced next to a function
        # under contract is verified with it instead of stopping the check
        blank = blank_comments_strings(src)
        statics = {}
        for m in re.finditer(r"(?m)^static\b[^;{}()=]*?\b([A-Za-z_]\w*)\s*\(", blank):
            nm = m.group(1)
            d = find_function_defs(src, nm)
            if len(d) == 1:
                statics[nm] = d[0]
        macros = []
        if preamble == "none":
            for m in re.finditer(r"(?m)^[ \t]*#[ \t]*define[ \t]+([A-Za-z_]\w*)(?:[^\n]*\\\n)*[^\n]*\n", src):
                macros.append((m.start(), m.end(), m.group(1)))
        changed = True
        while changed:
            changed = False
            body = " ".join(blank[a:b] for (a, b, _) in taken)
            for nm, (s0, bo0, e0) in statics.items():
                if any(t[2] == nm for t in taken):
                    continue
                if re.search(r"(?<![\w])" + re.escape(nm) + r"\s*\(", body):
                    taken.append((s0, e0, nm))
                    changed = True
        body = " ".join(src[a:b] for (a, b, _) in taken)
        for (a, b, nm) in macros:
            inside = any(a >= t[0] and a < t[1] for t in taken)
            if not inside and re.search(r"(?<![\w])" + re.escape(nm) + r"(?![\w])", body):
                out.append('#line %d "%s"\n' % (src[:a].count("\n") + 1, path))
                out.append(src[a:b])
        taken.sort()
    for (s, e, _nm) in taken:
        line = src[:s].count("\n") + 1
        text = src[s:e]
        out.append('#line %d "%s"\n' % (line, path))
        out.append(text)
        out.append("\n")
    return "".join(out)


# ----------------------------------------------------------------------------------------
# unit handling
# ----------------------------------------------------------------------------------------

def load_units():
    units = {}
    for uj in sorted(glob.glob(os.path.join(VERIF, "specs", "*", "unit.json"))):
        u = json.load(open(uj))
        u["dir"] = os.path.dirname(uj)
        units[u["unit"]] = u
    return units


def subst(s, env):
    for k, v in env.items():
        s = s.replace("@" + k + "@", v)
    return s


class UnitBuild:
    def __init__(self, unit, scratch, tier):
        self.u = unit
        self.scratch = os.path.join(scratch, unit["unit"])
        os.makedirs(self.scratch, exist_ok=True)
        self.tier = tier
        self.binc, self.binc_note = build_include()
        self.env = {"REPO": REPO, "VERIF": VERIF, "SCRATCH": self.scratch, "UNITDIR": unit["dir"]}
        self.obj = None
        self.notes = []
        self.compile_s = 0.0

    def prepare(self):
        u = self.u
        for f in u.get("repo_files", []):
            if not os.path.exists(os.path.join(REPO, f)):
                raise Undecided("repo file missing: " + f)
        # header rewrites (copy + must-fire textual rewrites) -> scratch/include
        for hr in u.get("header_rewrites", []):
            srcp = os.path.join(REPO, hr["file"])
            text = open(srcp).read()
            for rw in hr["rewrites"]:
                if text.count(rw["from"]) != 1:
                    raise Undecided("header rewrite must-fire failed in %s: %r occurs %d times"
                                    % (hr["file"], rw["from"][:60], text.count(rw["from"])))
                text = text.replace(rw["from"], rw["to"])
            dst = os.path.join(self.scratch, "include", hr["as"])
            os.makedirs(os.path.dirname(dst), exist_ok=True)
            open(dst, "w").write(text)
        # native check of the declared descriptor interface against the real headers (once per run)
        tu_text = open(os.path.join(u["dir"], u["tu"])).read()
        if "repo/expdict_iface.h" in tu_text and not IFACE_CHECKED.get("done"):
            cmd = ["g++", "-std=c++11", "-fsyntax-only", "-w", "-I" + os.path.join(REPO, "include"),
                   "-I" + os.path.join(REPO, "include", "stepcode"), "-I" + self.binc, "-I" + os.path.join(REPO, "src", "base"),
                   os.path.join(VERIF, "stubs", "repo", "iface_check.cc")]
            rc, out, err, secs = run(cmd, 300)
            if rc != 0:
                raise Undecided("declared descriptor interface (stubs/repo/expdict_iface.h) does not match the real headers: " + (out + err)[-1500:])
            IFACE_CHECKED["done"] = True
        # function-level extraction
        for ex in u.get("extract", []):
            text = extract_functions(os.path.join(REPO, ex["file"]), ex["functions"], ex.get("preamble", "includes"), ex.get("auto_helpers", False))
            for rw in ex.get("rewrites", []):
                if "regex" in rw:       # syntactic pattern (robust against harmless edits of the surrounding text)
                    text, n = re.subn(rw["regex"], rw["to"], text)
                    if n < 1 and not rw.get("optional"):
                        raise Undecided("extract rewrite must-fire failed in %s: /%s/" % (ex["file"], rw["regex"][:60]))
                    continue
                if text.count(rw["from"]) < 1:
                    raise Undecided("extract rewrite must-fire failed in %s: %r" % (ex["file"], rw["from"][:60]))
                text = text.replace(rw["from"], rw["to"])
            open(os.path.join(self.scratch, ex["out"]), "w").write(text)

    def cflags(self, native=False):
        u = self.u
        route = u["route"]
        fl = []
        if route == "c":
            fl += ["-std=c11", "-DNDEBUG"]
        else:
            fl += ["-x", "c++", "-std=c++11", "-DNDEBUG"]
            if not native:
                fl += ["-nostdinc++", "-I" + os.path.join(VERIF, "stubs", "cxx")]
        fl += ["-I" + self.scratch, "-I" + os.path.join(self.scratch, "include")]
        fl += ["-I" + u["dir"], "-I" + os.path.join(VERIF, "stubs"), "-I" + REPO]
        fl += ["-I" + os.path.join(REPO, "include"), "-I" + self.binc]
        for inc in u.get("includes", []):
            fl.append("-I" + subst(inc, self.env))
        for d in u.get("defines", []):
            fl.append("-D" + d)
        fl.append("-DVERIF_TIER_%s=1" % self.tier.upper())
        return fl

    def compile(self):
        u = self.u
        tu = os.path.join(u["dir"], u["tu"])
        self.obj = os.path.join(self.scratch, "unit.o")
        # __NO_CTYPE: glibc's <ctype.h> then declares functions instead of table-lookup macros, so CBMC's models apply
        cmd = ["goto-cc"] + self.cflags() + ["-DVERIF_CBMC=1", "-D__NO_CTYPE=1", "-c", tu, "-o", self.obj]
        rc, out, err, secs = run(cmd, 600)
        self.compile_s = secs
        self.compile_cmd = " ".join(cmd)
        if rc != 0:
            raise Undecided("goto-cc failed (rc=%d) for unit %s:\n%s" % (rc, u["unit"], (out + err)[-3000:]))
        if VERBOSE and err.strip():
            log(err[-2000:])


def loops_file(ub, h):
    """instantiate loop-contract JSON (placeholders) into scratch"""
    lf = h.get("loops")
    if not lf:
        return None
    text = subst(open(os.path.join(ub.u["dir"], lf)).read(), ub.env)
    dst = os.path.join(ub.scratch, h["name"] + ".loops.json")
    open(dst, "w").write(text)
    json.loads(text)
    return dst


def parse_cbmc_json(path):
    try:
        data = json.load(open(path))
    except Exception as e:
        return None, "cannot parse cbmc json: %s" % e
    results = None
    status = None
    msgs = []
    for e in data:
        if isinstance(e, dict):
            if "result" in e:
                results = e["result"]
            if "cProverStatus" in e:
                status = e["cProverStatus"]
            if e.get("messageType") in ("ERROR", "WARNING"):
                msgs.append(e.get("messageText", ""))
    return {"results": results, "status": status, "messages": msgs}, None


def trace_inputs(trace):
    """extract harness inputs (identifiers starting in_ / g_in_) from a cbmc json trace"""
    vals = {}
    for st in trace or []:
        if st.get("stepType") != "assignment":
            continue
        lhs = st.get("lhs", "")
        base = re.split(r"[\[.]", lhs)[0]
        if not (base.startswith("in_") or base.startswith("nd_")):
            continue
        if lhs in vals and st.get("assignmentType") == "actual-parameter":
            continue
        v = st.get("value", {})
        vals[lhs] = flatten_value(v)
    return vals


def flatten_value(v):
    if not isinstance(v, dict):
        return v
    if "binary" in v and "data" in v:
        return {"data": v["data"], "binary": v["binary"], "type": v.get("type")}
    if "data" in v:
        return {"data": v["data"], "type": v.get("type")}
    if "elements" in v:
        return [flatten_value(e.get("value")) for e in v["elements"]]
    if "members" in v:
        return {m.get("name"): flatten_value(m.get("value")) for m in v["members"]}
    return v.get("name") or str(v)[:100]


def _bytes_of(v):
    """little-endian hex of a scalar trace value, or None"""
    if isinstance(v, dict) and "binary" in v:
        b = v["binary"]
        if len(b) % 8:
            b = b.zfill((len(b) + 7) // 8 * 8)
        by = [b[i:i + 8] for i in range(0, len(b), 8)]
        by.reverse()
        return "".join("%02x" % int(x, 2) for x in by)
    return None


def flat_inputs(vals):
    """(name, byte offset, hex) triples for scalars and arrays of scalars; later entries override"""
    lines = []
    for lhs, v in vals.items():
        m = re.match(r"^(\w+?)(?:_w\.a)?(?:\[(\d+)l?\])?$", lhs)
        if not m:
            continue
        name, idx = m.group(1), m.group(2)
        if isinstance(v, dict) and list(v.keys()) == ["a"] and name.endswith("_w"):
            name, v = name[:-2], v["a"]   # IN_ARR wrapper struct
        if isinstance(v, list):
            off = 0
            for e in v:
                hx = _bytes_of(e)
                if hx is None:
                    break
                lines.append((name, off, hx))
                off += len(hx) // 2
        else:
            hx = _bytes_of(v)
            if hx is None:
                continue
            off = int(idx) * (len(hx) // 2) if idx else 0
            lines.append((name, off, hx))
    return lines


def run_harness(ub, h):
    """returns dict with status in {ok, failures, undecided} plus details"""
    u = ub.u
    name = h["name"]
    sdir = ub.scratch
    res = {"unit": u["unit"], "harness": name, "props": h["props"], "expect": h.get("expect", "pass"),
           "functions": h.get("functions", []), "bounded": h.get("bounded"),
           "enforcement": "dfcc" if h.get("enforce") else ("harness+callee-contracts" if h.get("replace") else "harness"), "cmds": [], "solver_s": 0.0}
    gb = os.path.join(sdir, name + ".gb")
    cmd = ["goto-cc", "--function", name, ub.obj, "-o", gb]
    if u["route"] != "c":
        cmd = ["goto-cc", "-x", "c++", "--function", name, ub.obj, "-o", gb]
        cmd = ["goto-cc", "--function", name, ub.obj, "-o", gb]
    rc, out, err, secs = run(cmd, 300)
    res["cmds"].append(" ".join(cmd))
    if rc != 0:
        res.update(status="undecided", reason="link failed rc=%d: %s" % (rc, (out + err)[-1500:]))
        return res
    cur = gb
    lf = loops_file(ub, h)
    gi = []
    if h.get("enforce"):
        gi += ["--dfcc", name]
        for f in ([h["enforce"]] if isinstance(h["enforce"], str) else h["enforce"]):
            gi += ["--enforce-contract", f]
        for g in h.get("replace", []):
            gi += ["--replace-call-with-contract", g]
    elif h.get("replace"):
        if h.get("dfcc", True):
            gi += ["--dfcc", name]
        for g in h.get("replace", []):
            gi += ["--replace-call-with-contract", g]
    if lf:
        gi += ["--loop-contracts-file", lf, "--apply-loop-contracts"]
    elif h.get("apply_loop_contracts"):
        gi += ["--apply-loop-contracts"]
    for extra in h.get("instrument_flags", []):
        gi.append(subst(extra, ub.env))
    if gi:
        nxt = os.path.join(sdir, name + ".i.gb")
        cmd = ["goto-instrument"] + gi + [cur, nxt]
        rc, out, err, secs = run(cmd, 600)
        res["cmds"].append(" ".join(cmd))
        if rc != 0:
            res.update(status="undecided", reason="goto-instrument failed rc=%d: %s" % (rc, (out + err)[-2500:]))
            return res
        cur = nxt
    flags = list(CHECK_FLAGS)
    for f in h.get("drop_flags", []):
        if f in flags:
            flags.remove(f)
    unwind = h.get("unwind")
    if isinstance(unwind, dict):
        unwind = unwind.get(ub.tier, unwind.get("quick"))
    if unwind:
        flags += ["--unwind", str(unwind), "--unwinding-assertions"]
    for us in h.get("unwindset", []):
        flags += ["--unwindset", us]
    if h.get("unwindset") and "--unwinding-assertions" not in flags:
        flags += ["--unwinding-assertions"]
    flags += [subst(x, ub.env) for x in h.get("cbmc_flags", [])]
    timeout = h.get("timeout", {"quick": 900, "thorough": 3600})
    if isinstance(timeout, dict):
        timeout = timeout.get(ub.tier, 900)
    outj = os.path.join(sdir, name + ".out.json")
    cmd = ["cbmc", cur] + flags + ["--trace", "--json-ui"]
    rc, out, err, secs = run(cmd, timeout, stdout_path=outj)
    res["cmds"].append(" ".join(cmd))
    res["solver_s"] = round(secs, 2)
    res["backend"] = "cbmc 6.11.0 / " + ("SMT2 " + [f for f in flags if f in ("--z3", "--cvc5")][0] if any(f in ("--z3", "--cvc5") for f in flags)
                                          else ("SAT (CaDiCaL, built in)" if "cadical" in flags else "SAT (MiniSat2, built in)"))
    if rc == -999:
        res.update(status="undecided", reason="cbmc timeout after %ss" % timeout)
        return res
    parsed, perr = parse_cbmc_json(outj)
    if perr or parsed["results"] is None:
        msg = perr or ("no result list; status=%s; messages=%s" % (parsed["status"], parsed["messages"][-5:]))
        res.update(status="undecided", reason="cbmc rc=%d: %s %s" % (rc, msg, err[-800:]))
        return res
    if any("ignoring" in m and ("forall" in m or "exists" in m) for m in parsed["messages"]):
        res.update(status="undecided", reason="solver ignored a quantifier: " + "; ".join(parsed["messages"])[:500])
        return res
    obl = []
    fails = []
    for r in parsed["results"]:
        loc = r.get("sourceLocation", {})
        fn = loc.get("function", "")
        o = {"name": r["property"], "desc": r["description"], "status": r["status"],
             "file": loc.get("file", ""), "line": loc.get("line", ""), "function": fn}
        o["internal"] = fn.startswith("__CPROVER_contracts") or r["property"].startswith("__CPROVER_contracts")
        if ".no-body." in r["property"] or r["description"].startswith("no body for callee"):
            callee = r["description"].replace("no body for callee", "").strip()
            if "nondet_" in callee:
                continue   # harness input source (block-scope declaration in C++ mode)
            if any(re.search(p, callee) for p in h.get("allow_no_body", []) + u.get("allow_no_body", [])):
                res.setdefault("externals_arbitrary", []).append(callee)
                continue
            if r["status"] == "FAILURE":
                res.setdefault("_missing", []).append(callee)
            continue
        if r["status"] not in ("SUCCESS", "FAILURE", "UNKNOWN"):
            res.update(status="undecided", reason="obligation %s has status %s" % (r["property"], r["status"]))
            return res
        if r["status"] == "FAILURE":
            o["trace_inputs"] = trace_inputs(r.get("trace"))
            tr = r.get("trace") or []
            o["trace_len"] = len(tr)
            fails.append(o)
        obl.append(o)
    if res.get("_missing"):
        res.update(status="undecided", reason="reached external functions without body or contract: %s (add stubs/contracts or list them under allow_no_body)" % ", ".join(sorted(set(res["_missing"]))))
        return res
    # cbmc reports UNKNOWN for obligations that lie behind a failed one on every path; without any
    # failure an UNKNOWN means the run is incomplete
    unknown = [o for o in obl if o["status"] == "UNKNOWN"]
    if unknown and not fails:
        res.update(status="undecided", reason="%d obligations UNKNOWN without a failed one (first: %s)" % (len(unknown), unknown[0]["name"]))
        return res
    res["n_unknown"] = len(unknown)
    res["obligations"] = obl
    res["n_obligations"] = len(obl)
    res["n_internal"] = sum(1 for o in obl if o["internal"])
    res["failures"] = fails
    # loop contract sanity: a dropped loop contract must not go unnoticed
    if lf or h.get("apply_loop_contracts"):
        need = h.get("expect_loop_invariants", 1)
        got = sum(1 for o in obl if "loop_invariant_step" in o["name"] or "loop invariant is preserved" in o["desc"].lower()
                  or "invariant after step" in o["desc"].lower())
        res["loop_invariant_obligations"] = got
        if got < need:
            res.update(status="undecided", reason="expected >=%d loop-invariant step obligations, found %d" % (need, got))
            return res
    for pat in h.get("expect_obligations", []):
        if not any(re.search(pat, o["name"] + " " + o["desc"]) for o in obl):
            res.update(status="undecided", reason="expected obligation matching %r not generated (vacuity guard)" % pat)
            return res
    if len(obl) - res["n_internal"] <= 0:
        res.update(status="undecided", reason="zero obligations generated (vacuity guard)")
        return res
    res["status"] = "failures" if fails else "ok"
    return res


# ----------------------------------------------------------------------------------------
# native replay
# ----------------------------------------------------------------------------------------

def native_replay(ub, h, failure, outdir, tag):
    """compile the same unit TU natively (gcc, ASan+UBSan) with the harness inputs taken from
    the cbmc trace, run it, and report whether the real code misbehaves on that input."""
    u = ub.u
    if not u.get("native", False) or h.get("native") is False:
        return {"attempted": False, "reason": "unit has no native replay driver"}
    vals = failure.get("trace_inputs") or {}
    if not vals and not h.get("native_no_inputs"):
        return {"attempted": False, "reason": "cbmc trace has no concrete harness inputs (inductive step / havocked state)"}
    vf = os.path.join(outdir, tag + ".inputs.json")
    json.dump(vals, open(vf, "w"), indent=1)
    ff = os.path.join(outdir, tag + ".inputs.flat")
    with open(ff, "w") as f:
        for (nm, off, hx) in flat_inputs(vals):
            f.write("%s %d %s\n" % (nm, off, hx))
    exe = os.path.join(ub.scratch, "native_" + h["name"])
    cc = "gcc" if u["route"] == "c" else "g++"
    tu = os.path.join(u["dir"], u["tu"])
    cmd = [cc] + [f for f in ub.cflags(native=True) if f not in ("-x", "c++")] + \
          ["-DVERIF_NATIVE=1", "-DVERIF_HARNESS=" + h["name"], "-g", "-O0", "-fsanitize=address,undefined",
           "-fno-sanitize-recover=undefined", "-w", "-include", os.path.join(VERIF, "engine", "verif_native.h")]
    if u["route"] != "c":
        cmd += ["-x", "c++"]
    cmd += [tu, "-o", exe] + [subst(x, ub.env) for x in u.get("native_libs", [])]
    rc, out, err, secs = run(cmd, 600)
    if rc != 0:
        return {"attempted": True, "built": False, "cmd": " ".join(cmd), "output": (out + err)[-3000:]}
    env = dict(os.environ, VERIF_INPUTS=vf, VERIF_INPUTS_FLAT=ff, ASAN_OPTIONS="detect_leaks=0:abort_on_error=0", UBSAN_OPTIONS="print_stacktrace=1")
    try:
        p = subprocess.run([exe], env=env, stdout=subprocess.PIPE, stderr=subprocess.STDOUT, timeout=120)
        rrc, rout = p.returncode, p.stdout.decode("utf8", "replace")
    except subprocess.TimeoutExpired:
        rrc, rout = -999, "native replay timed out (120 s)"
    # reproduced: our own assertion marker, or a sanitizer report located in repo code
    reproduced = False
    if "NATIVE-REPLAY ASSERT FAILED" in rout:
        reproduced = True
    for ln in rout.splitlines():
        if ("runtime error:" in ln and ln.startswith(REPO)) or \
           (ln.startswith("SUMMARY: AddressSanitizer") and REPO + "/" in ln):
            reproduced = True
    return {"attempted": True, "built": True, "cmd": " ".join(cmd), "run": exe + " (VERIF_INPUTS=%s)" % vf,
            "exit": rrc, "reproduced": reproduced, "output": rout[-4000:], "inputs_file": vf}


# ----------------------------------------------------------------------------------------
# main check
# ----------------------------------------------------------------------------------------

def load_known():
    p = os.path.join(VERIF, "known_findings.json")
    if not os.path.exists(p):
        return []
    return json.load(open(p)).get("entries", [])


def match_known(known, prop, unit, harness, o):
    text = "%s %s" % (o["name"], o["desc"])
    for k in known:
        if k.get("status") != "finding":
            continue
        if k["property"] != prop or k.get("unit") != unit:
            continue
        if k.get("harness") and k["harness"] != harness:
            continue
        if re.search(k["obligation"], text):
            return k
    return None


def tier_ok(h, tier):
    t = h.get("tier", "quick")
    return t == "quick" or tier == "thorough"


def check_property(prop, tier, only_unit=None, only_harness=None):
    t0 = time.time()
    seed = int(os.environ.get("VERIF_SEED", "0") or 0)
    units = load_units()
    known = load_known()
    os.makedirs(SCRATCH_ROOT, exist_ok=True)
    scratch = tempfile.mkdtemp(prefix="verif.%s." % prop, dir=SCRATCH_ROOT)
    outdir = os.path.join(VERIF, "replay", "out")
    os.makedirs(outdir, exist_ok=True)
    results = []
    undecided = []
    try:
        sel = []
        for un, u in units.items():
            if only_unit and un != only_unit:
                continue
            hs = [h for h in u["harnesses"] if (prop in h["props"] or prop == "ALL") and tier_ok(h, tier)
                  and (not only_harness or h["name"] == only_harness)]
            if hs:
                sel.append((u, hs))
        if not sel:
            raise Undecided("no unit serves property %s" % prop)
        builds = {}

        def build(u):
            ub = UnitBuild(u, scratch, tier)
            ub.prepare()
            ub.compile()
            return ub
        with cf.ThreadPoolExecutor(max_workers=JOBS) as ex:
            futs = {ex.submit(build, u): u for (u, hs) in sel}
            for f in cf.as_completed(futs):
                u = futs[f]
                try:
                    builds[u["unit"]] = f.result()
                except Undecided as e:
                    undecided.append("unit %s: %s" % (u["unit"], e))
        jobs = []
        for (u, hs) in sel:
            if u["unit"] not in builds:
                continue
            for h in hs:
                jobs.append((builds[u["unit"]], h))
        # deterministic permutation by seed (scheduling only)
        jobs.sort(key=lambda j: hashlib.sha1((str(seed) + j[0].u["unit"] + j[1]["name"]).encode()).hexdigest())
        jobs.sort(key=lambda j: -j[1].get("cost", 1))
        with cf.ThreadPoolExecutor(max_workers=JOBS) as ex:
            futs = {ex.submit(run_harness, ub, h): (ub, h) for (ub, h) in jobs}
            for f in cf.as_completed(futs):
                ub, h = futs[f]
                try:
                    r = f.result()
                except Undecided as e:
                    r = {"unit": ub.u["unit"], "harness": h["name"], "status": "undecided", "reason": str(e),
                         "props": h["props"], "expect": h.get("expect", "pass")}
                except Exception as e:  # engine bug: undecided, never violation
                    r = {"unit": ub.u["unit"], "harness": h["name"], "status": "undecided", "reason": "engine exception %r" % e,
                         "props": h["props"], "expect": h.get("expect", "pass")}
                r["_ub"], r["_h"] = ub, h
                results.append(r)
                if VERBOSE:
                    log("[%s/%s] %s %s" % (r["unit"], r["harness"], r["status"], r.get("reason", "")))

        # ---------------- classify ----------------
        violations = []
        known_hits = []
        n_obl = n_dis = n_int = 0
        samples = []
        unit_rows = []
        bounded = []
        functions = set()
        canaries_ok = 0
        for r in sorted(results, key=lambda r: (r["unit"], r["harness"])):
            ub, h = r["_ub"], r["_h"]
            if r["status"] == "undecided":
                undecided.append("%s/%s: %s" % (r["unit"], r["harness"], r.get("reason")))
                continue
            if r["expect"] == "fail":
                # vacuity canary: must be refuted
                pat = h.get("expect_fail_match", ".")
                hit = [o for o in r["failures"] if re.search(pat, o["name"] + " " + o["desc"])]
                if not hit:
                    undecided.append("%s/%s: canary that must fail was verified -> pipeline vacuous" % (r["unit"], r["harness"]))
                else:
                    canaries_ok += 1
                unit_rows.append({"unit": r["unit"], "harness": r["harness"], "role": "must-fail canary",
                                  "refuted": bool(hit), "solver_s": r["solver_s"]})
                continue
            own = [o for o in r["obligations"] if not o["internal"]]
            n_int += r["n_internal"]
            is_bounded = bool(r.get("bounded"))
            row = {"unit": r["unit"], "harness": r["harness"], "route": ub.u["route"], "functions": r["functions"],
                   "contract_enforcement": r["enforcement"], "backend": r.get("backend"),
                   "obligations": len(own), "instrumentation_obligations": r["n_internal"],
                   "discharged": sum(1 for o in own if o["status"] == "SUCCESS"),
                   "solver_s": r["solver_s"], "bounded": r.get("bounded") or False, "cmds": r["cmds"]}
            if "loop_invariant_obligations" in r:
                row["loop_invariant_obligations"] = r["loop_invariant_obligations"]
            unit_rows.append(row)
            for fn in r["functions"]:
                functions.add(fn)
            if is_bounded:
                bounded.append({"unit": r["unit"], "harness": r["harness"], "bound": r["bounded"],
                                "obligations": len(own), "passed": sum(1 for o in own if o["status"] == "SUCCESS")})
            else:
                n_obl += len(own)
                n_dis += sum(1 for o in own if o["status"] == "SUCCESS")
            for o in own[:3]:
                if len(samples) < 12:
                    samples.append({"unit": r["unit"], "harness": r["harness"], "obligation": o["name"],
                                    "description": o["desc"], "location": "%s:%s" % (o["file"], o["line"]), "status": o["status"]})
            # obligations covered by a listed known finding are reported separately, not as discharged or open
            kf_names = set(o["name"] for o in r["failures"] if not o["internal"] and match_known(known, prop, r["unit"], r["harness"], o))
            if kf_names and not is_bounded:
                n_obl -= len(kf_names)
            row["known_finding_obligations"] = sorted(kf_names)
            row["obligations"] -= len(kf_names)
            for o in r["failures"]:
                if o["internal"]:
                    undecided.append("%s/%s: instrumentation-internal obligation failed: %s" % (r["unit"], r["harness"], o["name"]))
                    continue
                k = match_known(known, prop, r["unit"], r["harness"], o)
                if k:
                    known_hits.append((k, r, o))
                    continue
                violations.append((r, o))
        # ---------------- report ----------------
        printed = set()
        for (k, r, o) in known_hits:
            key = k.get("id") or k["obligation"]
            if key in printed:
                continue
            printed.add(key)
            print("KNOWN-FINDING: property=%s %s [unit %s, harness %s, obligation %s]" %
                  (prop, k["what"], r["unit"], r["harness"], o["name"]))
        vio_files = []
        for idx, (r, o) in enumerate(violations):
            ub, h = r["_ub"], r["_h"]
            tag = "%s-%s-%s-%d" % (prop, r["unit"], re.sub(r"[^\w.]+", "_", o["name"]), idx)
            rp = os.path.join(outdir, tag + ".json")
            nat = native_replay(ub, h, o, outdir, tag)
            rec = {"property": prop, "unit": r["unit"], "harness": r["harness"], "route": ub.u["route"],
                   "failed_obligation": {"name": o["name"], "description": o["desc"],
                                         "location": "%s:%s (%s)" % (o["file"], o["line"], o["function"])},
                   "functions_under_contract": r["functions"],
                   "verifier": {"commands": r["cmds"], "backend": r.get("backend"),
                                "output": "cbmc reported FAILURE for %s: %s" % (o["name"], o["desc"]),
                                "trace_steps": o.get("trace_len", 0),
                                "counterexample_inputs": o.get("trace_inputs")},
                   "native_replay": nat,
                   "how_to_replay": "bin/check --replay %s" % rp,
                   "unit_dir": ub.u["dir"], "tier": tier}
            json.dump(rec, open(rp, "w"), indent=1, default=str)
            vio_files.append(rp)
            suffix = "" if nat.get("reproduced") else " no-failing-input-found"
            print("VIOLATION property=%s replay=%s%s" % (prop, rp, suffix))
            if VERBOSE or True:
                log("  failed obligation: %s -- %s  [%s/%s]" % (o["name"], o["desc"], r["unit"], r["harness"]))
        for msg in undecided:
            log("UNDECIDED: " + msg)

        # ---------------- evidence ----------------
        if prop != "ALL" and not only_unit and not only_harness:
            write_evidence(prop, tier, seed, n_obl, n_dis, n_int, samples, unit_rows, bounded, sorted(functions),
                           canaries_ok, len(violations), known_hits, undecided, sel, time.time() - t0, builds)
        if violations:
            return 1
        if undecided:
            return 2
        print("OK property=%s tier=%s obligations=%d discharged=%d bounded_standins=%d canaries_refuted=%d wall=%.1fs"
              % (prop, tier, n_obl, n_dis, len(bounded), canaries_ok, time.time() - t0))
        return 0
    except Undecided as e:
        log("UNDECIDED: %s" % e)
        return 2
    finally:
        if not KEEP:
            shutil.rmtree(scratch, ignore_errors=True)
        else:
            log("scratch kept: " + scratch)


def write_evidence(prop, tier, seed, n_obl, n_dis, n_int, samples, unit_rows, bounded, functions, canaries_ok,
                   n_viol, known_hits, undecided, sel, wall, builds):
    meta = {}
    mp = os.path.join(VERIF, "specs", "properties_meta.json")
    if os.path.exists(mp):
        meta = json.load(open(mp)).get(prop, {})
    assumptions = list(meta.get("assumptions", []))
    trusted = ["cbmc 6.11.0 (C/C++ front ends, goto-instrument DFCC contract instrumentation, MiniSat2)",
               "machine arithmetic: CBMC bit-precise x86-64 model",
               "memory allocation never fails (cbmc --no-malloc-may-fail): out-of-memory behaviour is outside every claimed property"]
    surroundings = list(meta.get("unverified_surroundings", []))
    hdr = []
    for (u, hs) in sel:
        for a in u.get("assumptions", []):
            s = "[%s] %s" % (u["unit"], a)
            if s not in assumptions:
                assumptions.append(s)
        for t in u.get("trusted", []):
            if t not in trusted:
                trusted.append(t)
        for hr in u.get("header_rewrites", []):
            hdr.append({"file": hr["file"], "rewrites": hr["rewrites"]})
        for ex in u.get("extract", []):
            assumptions.append("[%s] function-level extraction from %s: only %s are compiled; all other function bodies of that file are dropped (external: contract, stub or arbitrary)"
                               % (u["unit"], ex["file"], ", ".join(f["name"] for f in ex["functions"])))
        ub = builds.get(u["unit"])
        if ub is not None and "fallback" in ub.binc_note:
            assumptions.append("[%s] %s" % (u["unit"], ub.binc_note))
    # mechanical scan for assumes in spec files
    scan = []
    for (u, hs) in sel:
        for fn in sorted(glob.glob(os.path.join(u["dir"], "*"))):
            if fn.endswith((".c", ".cc", ".h", ".json")):
                try:
                    txt = open(fn).read()
                except Exception:
                    continue
                n = len(re.findall(r"__CPROVER_assume\s*\(", txt))
                if n:
                    scan.append("%s: %d __CPROVER_assume" % (os.path.relpath(fn, VERIF), n))
    if scan:
        assumptions.append("mechanical scan, __CPROVER_assume occurrences in spec files (input-shape constraints of harnesses, non-returning exit/abort stubs): " + "; ".join(scan))
    level = meta.get("level", "proof")
    cov = {
        "obligations": n_obl, "discharged": n_dis,
        "checker_cmd": "bin/check %s --tier %s  (per harness: goto-cc -> goto-instrument --dfcc/--enforce-contract/--replace-call-with-contract/--apply-loop-contracts -> cbmc; exact command lines under units[].cmds)" % (prop, tier),
        "trusted_base": trusted,
        "explanation": meta.get("explanation", ""),
        "functions_under_contract": functions,
        "instrumentation_obligations_not_counted": n_int,
        "bounded_standins": bounded,
        "must_fail_canaries_refuted": canaries_ok,
        "units": unit_rows,
        "unverified_surroundings": surroundings,
        "header_rewrites": hdr,
        "known_findings_seen": [{"what": k["what"], "obligation": o["name"]} for (k, r, o) in known_hits],
        "undecided": undecided,
        "samples": samples,
    }
    ev = {"property_id": prop, "tier": tier, "seed": seed, "level": level, "coverage": cov,
          "assumptions": assumptions, "wall_s": round(wall, 1), "violations": n_viol}
    os.makedirs(os.path.join(VERIF, "evidence"), exist_ok=True)
    json.dump(ev, open(os.path.join(VERIF, "evidence", prop + ".json"), "w"), indent=1)


def replay(path):
    rec = json.load(open(path))
    print(json.dumps({k: rec[k] for k in ("property", "unit", "harness", "failed_obligation")}, indent=1))
    print("verifier:", rec["verifier"]["output"])
    nat = rec.get("native_replay", {})
    if not nat.get("attempted") or not nat.get("built"):
        print("no native replay recorded (%s); re-running the verifier on the current tree" % nat.get("reason", nat.get("output", "")[:200]))
        return check_property(rec["property"], rec.get("tier", "quick"), only_unit=rec["unit"], only_harness=rec["harness"])
    # rebuild against the current tree and rerun with the recorded inputs
    units = load_units()
    u = units[rec["unit"]]
    h = [x for x in u["harnesses"] if x["name"] == rec["harness"]][0]
    scratch = tempfile.mkdtemp(prefix="verif.replay.", dir=SCRATCH_ROOT)
    try:
        ub = UnitBuild(u, scratch, rec.get("tier", "quick"))
        ub.prepare()
        fake = {"trace_inputs": json.load(open(nat["inputs_file"]))}
        outdir = os.path.join(VERIF, "replay", "out")
        n = native_replay(ub, h, fake, outdir, os.path.basename(path)[:-5] + ".re")
        print(n.get("output", ""))
        print("native replay exit=%s reproduced=%s" % (n.get("exit"), n.get("reproduced")))
        return 1 if n.get("reproduced") else 0
    finally:
        shutil.rmtree(scratch, ignore_errors=True)


def main(argv):
    tier = os.environ.get("VERIF_TIER", "quick")
    prop = None
    unit = None
    harness = None
    i = 0
    while i < len(argv):
        a = argv[i]
        if a == "--tier":
            tier = argv[i + 1]
            i += 2
        elif a == "--replay":
            return replay(argv[i + 1])
        elif a == "--unit":
            unit = argv[i + 1]
            i += 2
        elif a == "--harness":
            harness = argv[i + 1]
            i += 2
        else:
            prop = a
            i += 1
    if tier not in ("quick", "thorough"):
        tier = "quick"
    if prop is None:
        prop = "ALL"
    return check_property(prop, tier, unit, harness)


if __name__ == "__main__":
    sys.exit(main(sys.argv[1:]))
