#!/usr/bin/env python3
"""validate MANIFEST.json and evidence/*.json against the schemas (needs jsonschema: python3-vt)"""
import glob, json, sys
import jsonschema
ok = True
m = json.load(open('/verif/MANIFEST.json'))
jsonschema.validate(m, json.load(open('/root/.vp/MANIFEST.schema.json')))
es = json.load(open('/root/.vp/EVIDENCE.schema.json'))
for c in m['checks']:
    try:
        jsonschema.validate(json.load(open('/verif/' + c['evidence_file'])), es)
    except Exception as e:
        ok = False
        print('EVIDENCE', c['property_id'], str(e)[:300])
props = [json.loads(l)['id'] for l in open('/verif/properties.jsonl')]
claimed = [c['property_id'] for c in m['checks']]
na = [n['property_id'] for n in m.get('not_applicable', [])]
for p in props:
    if p not in claimed and p not in na:
        print('property neither claimed nor not_applicable:', p)
print('valid' if ok else 'INVALID')
