#!/usr/bin/env python3
import json,sys
from collections import Counter
d=json.load(open(sys.argv[1]))
for e in d:
    if 'result' in e:
        print(Counter(r['status'] for r in e['result']))
        for r in e['result']:
            if r['status']!='SUCCESS': print(r['property'],r['status'],r['description'], r.get('sourceLocation',{}).get('line'))
    if 'messageText' in e and e.get('messageType') in('ERROR','WARNING'): print(e['messageText'][:300])
