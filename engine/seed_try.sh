#!/bin/sh
# developer helper: seed_try.sh <seed dir under /verif/seeded> [props...]
# applies the seeded patch to a scratch worktree (/tmp/mut, at /repo's HEAD), runs the checks against it, reverts
sd=/verif/seeded/$1; shift
[ -d /tmp/mut ] || git -C /repo worktree add -f /tmp/mut HEAD >/dev/null 2>&1
git -C /tmp/mut checkout -q -- . ; git -C /tmp/mut checkout -q --detach $(git -C /repo rev-parse HEAD) || exit 8
git -C /tmp/mut apply "$sd/patch.diff" || { echo "patch does not apply"; exit 8; }
for p in "$@"; do VERIF_REPO=/tmp/mut /verif/bin/check $p 2>&1 | grep -E "VIOLATION|OK property|UNDECIDED|KNOWN" | cut -c1-250 | head -${MUT_LINES:-6}; done
git -C /tmp/mut checkout -q -- .
