#!/bin/sh
# developer helper: seed_try.sh <seed dir under /verif/seeded> [props...]  -- applies the seeded patch to /repo, runs checks, reverts
sd=/verif/seeded/$1; shift
git -C /repo diff --quiet || { echo "/repo dirty"; exit 9; }
git -C /repo apply "$sd/patch.diff" || { echo "patch does not apply"; exit 8; }
for p in "$@"; do /verif/bin/check $p 2>&1 | grep -E "VIOLATION|OK property|UNDECIDED|KNOWN" | cut -c1-250 | head -6; done
git -C /repo checkout -- .
