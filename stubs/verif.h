/* common definitions for spec TUs; see engine/verif_native.h for the native-replay side */
#ifndef VERIF_H
#define VERIF_H
#ifndef VERIF_NATIVE
#define IN(T, name) T name
#define IN_ARR(T, name, N) T name[N]
unsigned char nondet_uchar(void);
#define IN_BOOL(name) _Bool name = (_Bool)(nondet_uchar() & 1)
#define VERIF_MAIN()
#endif
#endif
