/* common definitions for spec TUs; see engine/verif_native.h for the native-replay side */
#ifndef VERIF_H
#define VERIF_H
#ifndef VERIF_NATIVE
#define IN(T, name) T name
/* arrays are wrapped so that cbmc's trace records one assignment carrying every element */
#define VERIF_CAT_(a, b) a##b
#define VERIF_CAT(a, b) VERIF_CAT_(a, b)
#define IN_ARR_(T, name, N, fn) struct name##_s { T a[N]; }; struct name##_s fn(void); \
                                struct name##_s name##_w = fn(); T *name = name##_w.a
#define IN_ARR(T, name, N) IN_ARR_(T, name, N, VERIF_CAT(nondet_arr_##name##_, __COUNTER__))
unsigned char nondet_uchar(void);
#define IN_BOOL(name) _Bool name = (_Bool)(nondet_uchar() & 1)
#define VERIF_MAIN()
#endif
#endif
