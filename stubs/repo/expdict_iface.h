/* ASSUMED INTERFACE of the dictionary descriptors (include/clstepcore/ExpDict.h is rejected by the CBMC C++
 * front end): declarations only -- every member is an external function, arbitrary unless the unit gives it a
 * body/contract.  Every member declared here is checked against the real headers by the native TU
 * stubs/repo/iface_check.cc (g++ -fsyntax-only) on every run of a unit that includes this file. */
#ifndef VERIF_EXPDICT_IFACE_H
#define VERIF_EXPDICT_IFACE_H
#include "clstepcore/baseType.h"
#include <string>
class SDAI_LOGICAL;
enum AttrType_Enum { AttrType_Explicit = 0, AttrType_Inverse, AttrType_Deriving, AttrType_Redefining };   /* as in attrDescriptor.h */
class TypeDescriptor { public:
  const char *Name(const char *schnm = 0) const;
  PrimitiveType NonRefType() const; PrimitiveType Type() const; PrimitiveType BaseType() const;
  const TypeDescriptor *BaseTypeDescriptor() const;
  void AttrTypeName(std::string &buf, const char *schnm = 0) const;
  const TypeDescriptor *NonRefTypeDescriptor() const; };
class EntityDescriptor : public TypeDescriptor { public: const EntityDescriptor *IsA(const EntityDescriptor *) const; const TypeDescriptor *IsA(const char *) const; const TypeDescriptor *IsA(const TypeDescriptor *) const; };
class AttrDescriptor { public:
  const char *Name() const; const std::string TypeName() const;
  PrimitiveType NonRefType() const; PrimitiveType Type() const; PrimitiveType BaseType() const;
  int IsAggrType() const; PrimitiveType AggrElemType() const;
  const TypeDescriptor *AggrElemTypeDescriptor() const; const TypeDescriptor *ReferentType() const; const TypeDescriptor *DomainType() const;
  const SDAI_LOGICAL &Optionality() const; enum AttrType_Enum AttrType() const;
  const TypeDescriptor *NonRefTypeDescriptor() const; };
#endif
