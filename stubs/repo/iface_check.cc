/* Native interface check (compiled by g++ -fsyntax-only on every run, never by cbmc): every member that
 * stubs/repo/expdict_iface.h DECLARES for the dictionary descriptor classes exists in the real headers
 * (include/clstepcore/ExpDict.h and friends) with exactly that signature.  A static_cast of the member's address to the
 * declared pointer-to-member type compiles only if such a member (one of the overloads) exists. */
#include "clstepcore/ExpDict.h"
#include <string>
#define CAT2(a, b) a##b
#define CAT(a, b) CAT2(a, b)
#define CHECK(cls, ret, name, args, cv) static ret (cls::*const CAT(verif_chk_, __COUNTER__)) args cv = static_cast<ret (cls::*) args cv>(&cls::name)
CHECK(TypeDescriptor, const char *, Name, (const char *), const);
CHECK(TypeDescriptor, PrimitiveType, NonRefType, (), const);
CHECK(TypeDescriptor, PrimitiveType, Type, (), const);
CHECK(TypeDescriptor, PrimitiveType, BaseType, (), const);
CHECK(TypeDescriptor, const TypeDescriptor *, BaseTypeDescriptor, (), const);
CHECK(TypeDescriptor, void, AttrTypeName, (std::string &, const char *), const);
CHECK(TypeDescriptor, const TypeDescriptor *, NonRefTypeDescriptor, (), const);
CHECK(EntityDescriptor, const EntityDescriptor *, IsA, (const EntityDescriptor *), const);
CHECK(EntityDescriptor, const TypeDescriptor *, IsA, (const TypeDescriptor *), const);
CHECK(EntityDescriptor, const TypeDescriptor *, IsA, (const char *), const);
CHECK(AttrDescriptor, const char *, Name, (), const);
CHECK(AttrDescriptor, const std::string, TypeName, (), const);
CHECK(AttrDescriptor, PrimitiveType, NonRefType, (), const);
CHECK(AttrDescriptor, PrimitiveType, Type, (), const);
CHECK(AttrDescriptor, PrimitiveType, BaseType, (), const);
CHECK(AttrDescriptor, int, IsAggrType, (), const);
CHECK(AttrDescriptor, PrimitiveType, AggrElemType, (), const);
CHECK(AttrDescriptor, const TypeDescriptor *, AggrElemTypeDescriptor, (), const);
CHECK(AttrDescriptor, const TypeDescriptor *, ReferentType, (), const);
CHECK(AttrDescriptor, const TypeDescriptor *, DomainType, (), const);
CHECK(AttrDescriptor, const SDAI_LOGICAL &, Optionality, (), const);
CHECK(AttrDescriptor, enum AttrType_Enum, AttrType, (), const);
CHECK(AttrDescriptor, const TypeDescriptor *, NonRefTypeDescriptor, (), const);
static_assert(AttrType_Explicit == 0 && AttrType_Inverse == 1 && AttrType_Deriving == 2 && AttrType_Redefining == 3, "AttrType_Enum as copied into expdict_iface.h");
