/* definitions of the stream-model state (include once per unit TU) */
#ifndef VERIF_STREAM_MODEL_H
#define VERIF_STREAM_MODEL_H
extern "C" { char g_stream_script[64]; unsigned long g_stream_len; int g_stream_arbitrary; }
#endif
