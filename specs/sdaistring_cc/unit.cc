/* Unit sdaistring_cc (CXX-FN): the STRING value class - reader, writers, assignment (C01: byte-for-byte, C03: what the literal scanner reports) */
#define instmgr_h
#define EXPDICT_H
#define private public
#define protected public
#include <iostream>
#include <sstream>
#include "cxx/verif_stream_model.h"
#include "clstepcore/sdai.h"
#include <stdio.h>
#include <stdlib.h>
#include <string.h>
namespace std { int ios::flags() const { return 0; } int ios::flags(int) { return 0; } void ios::unsetf(int) {} }
/* contract stub of GetLiteralStr (unit str_cc): the literal's text as scanned (quotes included), a severity left in the descriptor */
static char g_lit[8]; static int g_lit_sev; static int g_lit_calls;
std::string GetLiteralStr(istream &, ErrorDescriptor *err) { g_lit_calls++; err->GreaterSeverity((Severity)g_lit_sev); return std::string(g_lit); }
#include "sdaistring_extract.inc"
#undef private
#undef protected
#include "src/clutils/errordesc.cc"
#include "verif.h"

#define SN6 6
static void fill(std::string &s, const char *src, unsigned n) { s.clear(); for (unsigned i = 0; i < SN6; i++) if (i < n) s += src[i]; }
extern "C" void h_String_read_write()
{
    IN_ARR(char, in_lit, SN6); IN(unsigned, in_len); IN_ARR(char, in_old, SN6); IN(unsigned, in_olen); IN(int, in_sev);
    __CPROVER_assume(in_len <= SN6 && in_olen <= SN6);
    __CPROVER_assume(in_sev == SEVERITY_NULL || in_sev == SEVERITY_USERMSG || in_sev == SEVERITY_WARNING || in_sev == SEVERITY_INPUT_ERROR);
    for (int i = 0; i < SN6; i++) { if ((unsigned)i < in_len) __CPROVER_assume(in_lit[i] != 0); if ((unsigned)i < in_olen) __CPROVER_assume(in_old[i] != 0); }
    for (int i = 0; i < SN6; i++) g_lit[i] = (unsigned)i < in_len ? in_lit[i] : 0; g_lit[SN6] = 0;
    g_lit_sev = in_sev; g_lit_calls = 0;
    SDAI_String *v = (SDAI_String *)malloc(sizeof(SDAI_String)); new (&v->content) std::string(); fill(v->content, in_old, in_olen);
    istream in; in._m_state = 0; in._m_have = 0; in._m_consumed = 0; g_stream_arbitrary = 1;
    ErrorDescriptor err;
    Severity sv = v->SDAI_String::STEPread(in, &err);
    __CPROVER_assert(g_lit_calls == 1, "the literal is scanned once");
    int same = strlen(v->content.c_str()) == in_len; for (int i = 0; i < SN6; i++) if ((unsigned)i < in_len && same) same = v->content.c_str()[i] == in_lit[i];
    __CPROVER_assert(same, "C01 the value read is exactly the literal's text - every byte of it, nothing of the previous value");
    if (in_len == 0) __CPROVER_assert(sv <= SEVERITY_INCOMPLETE && err.severity() <= SEVERITY_INCOMPLETE, "C03 no string literal where one is expected is reported (incomplete or worse), to the caller and in the descriptor");
    if (in_sev <= SEVERITY_WARNING) __CPROVER_assert(err.severity() <= (Severity)in_sev, "C03 what the literal scanner reported (unterminated string, garbage) stays in the descriptor");
    if (in_sev == SEVERITY_INPUT_ERROR) __CPROVER_assert(sv <= SEVERITY_INCOMPLETE && (in_len == 0 || sv == SEVERITY_INPUT_ERROR), "C03 an unterminated string is reported to the caller as worse than a user message (as the input error itself when any text was read)");
    /* writers */
    ostream out; out._m_written = 0;
    v->SDAI_String::STEPwrite(out);
    __CPROVER_assert(out._m_written == 1 && out._m_logc[0] == 'S' && out._m_logs[0] == v->content.c_str(), "C01 the stream writer emits exactly the stored text, once");
    std::string s; fill(s, in_old, in_olen);
    v->SDAI_String::STEPwrite(s);
    int same2 = strlen(s.c_str()) == in_len; for (int i = 0; i < SN6; i++) if ((unsigned)i < in_len && same2) same2 = s.c_str()[i] == in_lit[i];
    __CPROVER_assert(same2, "C01 the string writer yields exactly the stored text, whatever the buffer held");
    /* assignment through StrToVal */
    char old0[SN6 + 1]; for (int i = 0; i < SN6; i++) old0[i] = (unsigned)i < in_olen ? in_old[i] : 0; old0[SN6] = 0;
    Severity s2 = v->SDAI_String::StrToVal(old0);
    int same3 = 1; for (int i = 0; i < SN6; i++) if ((unsigned)i < in_olen) same3 &= v->content.c_str()[i] == in_old[i];
    __CPROVER_assert(s2 == SEVERITY_NULL && same3 && strlen(v->content.c_str()) == in_olen, "C01 assigning a text stores exactly that text");
}
