/* Unit select_cc (CXX-FN): the SELECT value writer extracted from sdaiSelect.cc */
#define instmgr_h
#define EXPDICT_H
#define private public
#define protected public
#include <iostream>
#include <sstream>
#include "cxx/verif_stream_model.h"
#include "clstepcore/sdai.h"
#include "repo/expdict_iface.h"
#include "clstepcore/sdaiSelect.h"
#include "clstepcore/STEPaggregate.h"
#include "clstepcore/STEPaggrSelect.h"
#include "clutils/Str.h"
#include <ctype.h>
#include <string.h>
#include <stdlib.h>
static PrimitiveType g_nonref, g_type; static int g_content_calls; static const char *g_content_sch;
PrimitiveType TypeDescriptor::NonRefType() const { return g_nonref; }
PrimitiveType TypeDescriptor::Type() const { return g_type; }
const char *TypeDescriptor::Name(const char *) const { return "typ"; }
const char *StrToUpper(const char *w, std::string &s) { s.clear(); for (int i = 0; i < 31 && w[i]; i++) s += (char)toupper(w[i]); return s.c_str(); }
static void verif_write_content(const SDAI_Select *, ostream &out, const char *sch = 0) { g_content_calls++; g_content_sch = sch; out << "@"; }
#include "select_extract.inc"
/* recording contract stub of the select value reader */
static int g_sr_calls, g_sr_add; static InstMgrBase *g_sr_insts; static const char *g_sr_sch, *g_sr_utype; static Severity g_sr_sev; static int g_cri_calls;
Severity SDAI_Select::STEPread(istream &, ErrorDescriptor *, InstMgrBase *insts, const char *utype, int add, const char *sch) { g_sr_calls++; g_sr_insts = insts; g_sr_utype = utype; g_sr_add = add; g_sr_sch = sch; return g_sr_sev; }
Severity CheckRemainingInput(istream &, ErrorDescriptor *e, const char *, const char *) { g_cri_calls++; return e->severity(); }
#include "selnode_extract.inc"
#include "src/clutils/errordesc.cc"
#undef private
#undef protected
#include "verif.h"

/* C01: an unset SELECT is $; an entity instance is written as its reference alone; a value of a simple, enumeration or aggregate type
 * is written as the upper-case keyword of its underlying type with the value in parentheses (a typed parameter) */
extern "C" void h_Select_write()
{
    IN(int, in_set); IN(int, in_kind); IN(int, in_reftype);
    static const PrimitiveType kinds[] = { sdaiINSTANCE, sdaiSELECT, sdaiNUMBER, sdaiREAL, sdaiINTEGER, sdaiSTRING, sdaiBOOLEAN, sdaiLOGICAL, sdaiBINARY, sdaiENUMERATION, sdaiAGGR, ARRAY_TYPE, BAG_TYPE, SET_TYPE, LIST_TYPE };
    __CPROVER_assume(in_kind >= 0 && in_kind < 15);
    g_nonref = kinds[in_kind]; g_type = in_reftype ? REFERENCE_TYPE : kinds[in_kind];
    SDAI_Select *s = (SDAI_Select *)malloc(sizeof(SDAI_Select));
    s->underlying_type = in_set ? (TypeDescriptor *)malloc(sizeof(TypeDescriptor)) : 0;
    g_content_calls = 0;
    ostream out; out._m_written = 0;
    s->SDAI_Select::STEPwrite(out, "sch");
    if (!in_set) { __CPROVER_assert(out._m_written == 1 && out._m_logc[0] == 'S' && out._m_logt[0][0] == '$' && out._m_logt[0][1] == 0 && g_content_calls == 0, "C01 an unset SELECT value is written as $"); return; }
    __CPROVER_assert(g_content_calls == 1, "C01 the value of a SELECT is written exactly once");
    int typed = g_nonref != sdaiINSTANCE && !(g_nonref == sdaiSELECT && !in_reftype);
    if (!typed) __CPROVER_assert(out._m_written == 1 && out._m_logt[0][0] == '@', "C01 an entity instance (or a nested select) is written as its own token, without a keyword");
    else {
        __CPROVER_assert(out._m_written == 4, "C01 a typed SELECT value is KEYWORD ( value )");
        __CPROVER_assert(out._m_logc[0] == 'S' && out._m_logt[0][0] == 'T' && out._m_logt[0][1] == 'Y' && out._m_logt[0][2] == 'P' && out._m_logt[0][3] == 0, "C01 the keyword is the name of the value's underlying type in upper case");
        __CPROVER_assert(out._m_logt[1][0] == '(' && out._m_logt[1][1] == 0 && out._m_logt[2][0] == '@' && out._m_logt[3][0] == ')' && out._m_logt[3][1] == 0, "C01 the value stands between the parentheses that follow the keyword");
    }
}

/* C14/C03: an element of an aggregate of selects is read with the caller's instance set, id offset and schema; its severity is the
 * element's severity */
extern "C" void h_SelectNode_STEPread()
{
    IN(int, in_add); IN(int, in_sev);
    __CPROVER_assume(in_add >= 0);
    __CPROVER_assume(in_sev == SEVERITY_NULL || in_sev == SEVERITY_USERMSG || in_sev == SEVERITY_INCOMPLETE || in_sev == SEVERITY_WARNING || in_sev == SEVERITY_INPUT_ERROR);
    SelectNode *n = (SelectNode *)malloc(sizeof(SelectNode)); n->node = (SDAI_Select *)malloc(sizeof(SDAI_Select));
    InstMgrBase *insts = (InstMgrBase *)malloc(8); TypeDescriptor *td = (TypeDescriptor *)malloc(sizeof(TypeDescriptor));
    istream in; in._m_state = 0; in._m_have = 0; in._m_consumed = 0; g_stream_arbitrary = 1;
    ErrorDescriptor err; g_sr_calls = g_cri_calls = 0; g_sr_sev = (Severity)in_sev;
    Severity s = n->SelectNode::STEPread(in, &err, td, insts, in_add, "sch");
    __CPROVER_assert(g_sr_calls == 1 && g_sr_insts == insts && g_sr_add == in_add && g_sr_sch != 0 && g_sr_utype == 0, "C14 the select element reader gets the caller's instance set, id offset and schema unchanged");
    __CPROVER_assert(s == (Severity)in_sev && g_cri_calls == 1, "C03 the element's severity is what its value reader reported; what follows the value is checked once");
}
