/* Unit select_cc (CXX-FN): the SELECT value writer extracted from sdaiSelect.cc */
#define instmgr_h
#define EXPDICT_H
#define private public
#define protected public
#include <iostream>
#include <sstream>
#include "cxx/verif_stream_model.h"
#include "clstepcore/sdai.h"
#include "repo/expdict_iface.h"
#include "clstepcore/sdaiSelect.h"
#include "clstepcore/STEPaggregate.h"
#include "clstepcore/STEPaggrSelect.h"
#include "clutils/Str.h"
#include <ctype.h>
#include <string.h>
#include <stdlib.h>
static PrimitiveType g_nonref, g_type; static int g_content_calls; static const char *g_content_sch;
PrimitiveType TypeDescriptor::NonRefType() const { return g_nonref; }
PrimitiveType TypeDescriptor::Type() const { return g_type; }
const char *TypeDescriptor::Name(const char *) const { return "typ"; }
const char *StrToUpper(const char *w, std::string &s) { s.clear(); for (int i = 0; i < 31 && w[i]; i++) s += (char)toupper(w[i]); return s.c_str(); }
static void verif_write_content(const SDAI_Select *, ostream &out, const char *sch = 0) { g_content_calls++; g_content_sch = sch; out << "@"; }
#include "select_extract.inc"
/* recording contract stub of the select value reader */
static int g_sr_calls, g_sr_add; static InstMgrBase *g_sr_insts; static const char *g_sr_sch, *g_sr_utype; static Severity g_sr_sev; static int g_cri_calls;
static Severity verif_select_STEPread(SDAI_Select *, istream &, ErrorDescriptor *, InstMgrBase *insts, const char *utype, int add, const char *sch) { g_sr_calls++; g_sr_insts = insts; g_sr_utype = utype; g_sr_add = add; g_sr_sch = sch; return g_sr_sev; }
Severity CheckRemainingInput(istream &, ErrorDescriptor *e, const char *, const char *) { g_cri_calls++; return e->severity(); }
#include "selnode_extract.inc"
/* ---- environment of the select value reader ---- */
static int g_in_list, g_unique, g_assign_ok; static TypeDescriptor *g_member;
static int g_content_reads, g_content_add; static InstMgrBase *g_content_insts; static const char *g_content_utype, *g_content_sch; static Severity g_content_sev;
static int g_ref_calls, g_ref_add; static InstMgrBase *g_ref_insts; static SDAI_Application_instance *g_ref_result; static int g_nullify_calls;
const TypeDescriptor *SDAI_Select::SetUnderlyingType(const TypeDescriptor *td) { if (td) underlying_type = (TypeDescriptor *)td; return (TypeDescriptor *)td; }   /* (the front end drops the const of the declared return type) */
const TypeDescriptor *SDAI_Select::CanBeSet(const char *, const char *) const { if (g_in_list) return g_member; return (TypeDescriptor *)0; }
const TypeDescriptor *SDAI_Select::CanBe(BASE_TYPE) const { if (g_in_list) return g_member; return (TypeDescriptor *)0; }
int SDAI_Select::IsUnique(const BASE_TYPE) const { return g_unique; }
void SDAI_Select::nullify() { g_nullify_calls++; underlying_type = 0; }
std::string SDAI_Select::Error() { return std::string(""); }
Severity SDAI_Select::severity() const { return g_content_sev; }
static Severity verif_read_content(SDAI_Select *, istream &in, InstMgrBase *insts, const char *utype, int add, const char *sch = 0)
{   /* contract: reads the value (here one character) */
    g_content_reads++; g_content_insts = insts; g_content_utype = utype; g_content_add = add; g_content_sch = sch; in.get(); return g_content_sev; }
static const TypeDescriptor *verif_AssignEntity(SDAI_Select *, SDAI_Application_instance *) { if (g_assign_ok) return g_member; return (TypeDescriptor *)0; }
SDAI_Application_instance *ReadEntityRef(istream &in, ErrorDescriptor *, const char *, InstMgrBase *insts, int add) { g_ref_calls++; g_ref_insts = insts; g_ref_add = add; in.get(); in.get(); return g_ref_result; }
/* sprintf with one string argument (C++ overload next to the variadic libc declaration, which cbmc's C++ front end cannot model): the
 * text written is at most format + argument long and must fit the destination.  An argument that IS the keyword token of the input stands for
 * a token of any length (ghost g_kw_vlen: the model string holds only a prefix of a long token) */
static unsigned long g_kw_vlen = 2; static const char *g_kw_text = "KW";
int sprintf(char *b, const char *f, const char *a)
{
    /* upper bounds without loops: a string is shorter than the object that holds it */
    unsigned long flen = __CPROVER_OBJECT_SIZE(f) - __CPROVER_POINTER_OFFSET(f) - 1, alen = __CPROVER_OBJECT_SIZE(a) - __CPROVER_POINTER_OFFSET(a) - 1;
    unsigned long need = flen + ((a[0] == g_kw_text[0] && a[1] == g_kw_text[1] && a[2] == 0) ? g_kw_vlen : alen);
    __CPROVER_assert(need < __CPROVER_OBJECT_SIZE(b) - __CPROVER_POINTER_OFFSET(b), "C05 a message formatted with sprintf fits its buffer whatever the length of the input token it quotes");
    b[0] = 0; return 0;
}
#include "select_read_extract.inc"
#include "src/clutils/errordesc.cc"
#undef private
#undef protected
#include "verif.h"

/* C01: an unset SELECT is $; an entity instance is written as its reference alone; a value of a simple, enumeration or aggregate type
 * is written as the upper-case keyword of its underlying type with the value in parentheses (a typed parameter) */
extern "C" void h_Select_write()
{
    IN(int, in_set); IN(int, in_kind); IN(int, in_reftype);
    static const PrimitiveType kinds[] = { sdaiINSTANCE, sdaiSELECT, sdaiNUMBER, sdaiREAL, sdaiINTEGER, sdaiSTRING, sdaiBOOLEAN, sdaiLOGICAL, sdaiBINARY, sdaiENUMERATION, sdaiAGGR, ARRAY_TYPE, BAG_TYPE, SET_TYPE, LIST_TYPE };
    __CPROVER_assume(in_kind >= 0 && in_kind < 15);
    g_nonref = kinds[in_kind]; g_type = in_reftype ? REFERENCE_TYPE : kinds[in_kind];
    SDAI_Select *s = (SDAI_Select *)malloc(sizeof(SDAI_Select));
    s->underlying_type = in_set ? (TypeDescriptor *)malloc(sizeof(TypeDescriptor)) : 0;
    g_content_calls = 0;
    ostream out; out._m_written = 0;
    s->SDAI_Select::STEPwrite(out, "sch");
    if (!in_set) { __CPROVER_assert(out._m_written == 1 && out._m_logc[0] == 'S' && out._m_logt[0][0] == '$' && out._m_logt[0][1] == 0 && g_content_calls == 0, "C01 an unset SELECT value is written as $"); return; }
    __CPROVER_assert(g_content_calls == 1, "C01 the value of a SELECT is written exactly once");
    int typed = g_nonref != sdaiINSTANCE && !(g_nonref == sdaiSELECT && !in_reftype);
    if (!typed) __CPROVER_assert(out._m_written == 1 && out._m_logt[0][0] == '@', "C01 an entity instance (or a nested select) is written as its own token, without a keyword");
    else {
        __CPROVER_assert(out._m_written == 4, "C01 a typed SELECT value is KEYWORD ( value )");
        __CPROVER_assert(out._m_logc[0] == 'S' && out._m_logt[0][0] == 'T' && out._m_logt[0][1] == 'Y' && out._m_logt[0][2] == 'P' && out._m_logt[0][3] == 0, "C01 the keyword is the name of the value's underlying type in upper case");
        __CPROVER_assert(out._m_logt[1][0] == '(' && out._m_logt[1][1] == 0 && out._m_logt[2][0] == '@' && out._m_logt[3][0] == ')' && out._m_logt[3][1] == 0, "C01 the value stands between the parentheses that follow the keyword");
    }
}

/* C14/C03: an element of an aggregate of selects is read with the caller's instance set, id offset and schema; its severity is the
 * element's severity */
extern "C" void h_SelectNode_STEPread()
{
    IN(int, in_add); IN(int, in_sev);
    __CPROVER_assume(in_add >= 0);
    __CPROVER_assume(in_sev == SEVERITY_NULL || in_sev == SEVERITY_USERMSG || in_sev == SEVERITY_INCOMPLETE || in_sev == SEVERITY_WARNING || in_sev == SEVERITY_INPUT_ERROR);
    SelectNode *n = (SelectNode *)malloc(sizeof(SelectNode)); n->node = (SDAI_Select *)malloc(sizeof(SDAI_Select));
    InstMgrBase *insts = (InstMgrBase *)malloc(8); TypeDescriptor *td = (TypeDescriptor *)malloc(sizeof(TypeDescriptor));
    istream in; in._m_state = 0; in._m_have = 0; in._m_consumed = 0; g_stream_arbitrary = 1;
    ErrorDescriptor err; g_sr_calls = g_cri_calls = 0; g_sr_sev = (Severity)in_sev;
    Severity s = n->SelectNode::STEPread(in, &err, td, insts, in_add, "sch");
    __CPROVER_assert(g_sr_calls == 1 && g_sr_insts == insts && g_sr_add == in_add && g_sr_sch != 0 && g_sr_utype == 0, "C14 the select element reader gets the caller's instance set, id offset and schema unchanged");
    __CPROVER_assert(s == (Severity)in_sev && g_cri_calls == 1, "C03 the element's severity is what its value reader reported; what follows the value is checked once");
}

/* C03: a SELECT value whose type keyword is not in the select list, or a reference to an instance that no member of the list admits,
 * raises an error; C14: references and nested values are read with the caller's instance set and id offset */
extern "C" void h_Select_STEPread()
{
    IN(int, in_shape); IN(int, in_inlist); IN(int, in_assign); IN(int, in_add); IN(int, in_found); IN(int, in_csev); IN(unsigned long, in_kwlen);
    __CPROVER_assume(in_kwlen >= 2 && in_kwlen <= 100000); g_kw_vlen = in_kwlen;      /* the keyword of the input may be this long */
    __CPROVER_assume(in_shape >= 0 && in_shape <= 3 && in_add >= 0);
    __CPROVER_assume(in_csev == SEVERITY_NULL || in_csev == SEVERITY_USERMSG || in_csev == SEVERITY_INCOMPLETE || in_csev == SEVERITY_WARNING || in_csev == SEVERITY_INPUT_ERROR);
    const char *txt[4] = { "#5,", "KW(v),", "$,", "," };
    g_stream_arbitrary = 0; int n = 0; while (txt[in_shape][n]) { g_stream_script[n] = txt[in_shape][n]; n++; } g_stream_len = n;
    istream in; in._m_state = 0; in._m_have = 0; in._m_consumed = 0;
    SDAI_Select *s = (SDAI_Select *)malloc(sizeof(SDAI_Select)); s->underlying_type = 0; s->_type = (SelectTypeDescriptor *)malloc(8);
    g_member = (TypeDescriptor *)malloc(sizeof(TypeDescriptor)); g_nonref = sdaiINTEGER; g_type = sdaiINTEGER;
    InstMgrBase *insts = (InstMgrBase *)malloc(8);
    g_in_list = in_inlist != 0; g_unique = 1; g_assign_ok = in_assign != 0; g_content_sev = (Severity)in_csev;   /* what the (generated) value reader leaves in the select's own descriptor */
    g_ref_result = in_found ? (SDAI_Application_instance *)malloc(sizeof(SDAI_Application_instance)) : ENTITY_NULL;
    g_content_reads = g_ref_calls = g_nullify_calls = 0;
    ErrorDescriptor err;
    Severity r = s->SDAI_Select::STEPread(in, &err, insts, 0, in_add, "sch");
    if (in_shape == 0) {
        __CPROVER_assert(g_ref_calls == 1 && g_ref_insts == insts && g_ref_add == in_add, "C14 a reference inside a SELECT is looked up in the caller's instance set with the caller's id offset");
        if (in_found && in_assign) __CPROVER_assert(r == SEVERITY_NULL, "a reference to an instance that a member of the select list admits is accepted");
        else __CPROVER_assert(r <= SEVERITY_WARNING && err.severity() <= SEVERITY_WARNING && g_nullify_calls >= 1, "C03 a reference to a missing instance, or to one that no member of the select list admits, raises an error and leaves the select unset");
        __CPROVER_assert(in._m_consumed == 2, "C09 the delimiter after the reference is left unread");
    } else if (in_shape == 1) {
        if (in_inlist) {
            __CPROVER_assert(g_content_reads == 1 && g_content_insts == insts && g_content_add == in_add && g_content_sch != 0, "C14 the value of a typed SELECT parameter is read with the caller's instance set, id offset and schema");
            __CPROVER_assert(in._m_consumed == 5, "a typed parameter KEYWORD(value) of a listed type is read up to and including its closing parenthesis");
            __CPROVER_assert((int)r <= in_csev && (int)err.severity() <= in_csev && (in_csev != SEVERITY_NULL || r == SEVERITY_NULL), "C03 what the value reader reports for the value inside KEYWORD( ) is the select's result and reaches the caller's descriptor; a clean value reads clean");
        } else
            __CPROVER_assert(r <= SEVERITY_WARNING && err.severity() <= SEVERITY_WARNING && g_content_reads == 0, "C03 a SELECT value whose type keyword is not in the select list raises an error");
    } else if (in_shape == 2)
        __CPROVER_assert(r == SEVERITY_INCOMPLETE && g_nullify_calls == 1, "$ leaves the select unset (the caller decides whether that is allowed)");
    else
        __CPROVER_assert(r <= SEVERITY_WARNING && in._m_consumed == 0, "C03/C09 an empty SELECT value raises an error and the delimiter is left unread");
}
