/* Unit stepattr_cc (CXX-FN): STEPattribute::STEPread / NonRefType / Nullable extracted from STEPattribute.cc */
#define instmgr_h
#define EXPDICT_H
#define private public
#define protected public
#include <iostream>
#include "cxx/verif_stream_model.h"
#include "clstepcore/sdai.h"
#include "repo/expdict_iface.h"
#include "stepattr_extract.inc"
#include "src/clutils/errordesc.cc"
#include "src/cldai/sdaiString.cc"
#undef private
#undef protected
#include "verif.h"
extern "C" { int nondet_int(); }

/* ---- ghost / environment ---- */
static PrimitiveType g_base; static SDAI_LOGICAL *g_opt_obj; static const char *g_attr_name = "a";
static int g_set_null_calls, g_readers_called, g_cri_calls, g_entityref_addfileid = -12345, g_entityref_calls, g_aggr_addfileid = -12345, g_sel_addfileid = -12345;
PrimitiveType AttrDescriptor::NonRefType() const { return g_base; }
const SDAI_LOGICAL &AttrDescriptor::Optionality() const { return *g_opt_obj; }
const char *AttrDescriptor::Name() const { return g_attr_name; }
const std::string AttrDescriptor::TypeName() const { return std::string("t"); }
Severity STEPattribute::set_null() { g_set_null_calls++; return SEVERITY_NULL; }

/* C09 contract of the const char* number readers */
static int denotes_number(const char *s) { while (*s == ' ') s++; return (*s >= '0' && *s <= '9') || *s == '+' || *s == '-'; }
int ReadInteger(SDAI_Integer &val, const char *s, ErrorDescriptor *err, const char *) { g_readers_called++; if (denotes_number(s)) { val = 0; return 1; } err->GreaterSeverity(SEVERITY_WARNING); return 0; }
int ReadReal(SDAI_Real &val, const char *s, ErrorDescriptor *err, const char *) { g_readers_called++; if (denotes_number(s)) { val = 0.0; return 1; } err->GreaterSeverity(SEVERITY_WARNING); return 0; }
int ReadNumber(SDAI_Real &val, const char *s, ErrorDescriptor *err, const char *) { g_readers_called++; if (denotes_number(s)) { val = 0.0; return 1; } err->GreaterSeverity(SEVERITY_WARNING); return 0; }
/* contract stub (under contract in unit str_cc): garbage before the delimiter is a warning added to the descriptor it is given */
static int g_cri_garbage;
Severity CheckRemainingInput(istream &, ErrorDescriptor *e, const char *, const char *) { g_cri_calls++; if (g_cri_garbage) e->GreaterSeverity(SEVERITY_WARNING); return e->severity(); }
Severity CheckRemainingInput(istream &, ErrorDescriptor *e, const std::string, const char *) { g_cri_calls++; if (g_cri_garbage) e->GreaterSeverity(SEVERITY_WARNING); return e->severity(); }
/* ---- recording stubs for the reference-reading callees (their own units: read_func / aggregate readers) ---- */
static SDAI_Application_instance *g_ref_result; static Severity g_evl_result; static const TypeDescriptor *g_evl_desc; static int g_evl_calls;
static InstMgrBase *g_ref_instances, *g_aggr_instances, *g_sel_instances; static long g_nil_storage[64];
SDAI_Application_instance *ReadEntityRef(istream &, ErrorDescriptor *, const char *, InstMgrBase *instances, int addFileId)
{ g_entityref_calls++; g_entityref_addfileid = addFileId; g_ref_instances = instances; return g_ref_result; }
Severity EntityValidLevel(SDAI_Application_instance *, const TypeDescriptor *ed, ErrorDescriptor *err)
{ g_evl_calls++; g_evl_desc = ed; if (g_evl_result != SEVERITY_NULL) err->GreaterSeverity(g_evl_result); return g_evl_result; }
static Severity g_sub_sev = SEVERITY_NULL; static int g_aggr_calls, g_sel_calls; static ErrorDescriptor *g_aggr_err, *g_sel_err;
Severity STEPaggregate::STEPread(istream &, ErrorDescriptor *err, const TypeDescriptor *, InstMgrBase *insts, int addFileId, const char *)
{ g_aggr_addfileid = addFileId; g_aggr_instances = insts; g_aggr_calls++; g_aggr_err = err; err->GreaterSeverity(g_sub_sev); return err->severity(); }   /* contract (units aggregate_cc, entaggr_cc): what went wrong is added to the caller's descriptor */
Severity SDAI_Select::STEPread(istream &, ErrorDescriptor *err, InstMgrBase *instances, const char *, int addFileId, const char *)
{ g_sel_addfileid = addFileId; g_sel_instances = instances; g_sel_calls++; g_sel_err = err; if (nondet_int()) err->GreaterSeverity(g_sub_sev); return g_sub_sev; }   /* contract (unit select_cc): the severity of the read is returned; whether it is also in the caller's descriptor is left open */
static TypeDescriptor *g_nonref_desc = (TypeDescriptor *)&g_nil_storage[8];
const TypeDescriptor *AttrDescriptor::NonRefTypeDescriptor() const { return g_nonref_desc; }
const TypeDescriptor *AttrDescriptor::AggrElemTypeDescriptor() const { return g_nonref_desc; }
#include "harnesses.cc"
