/* C15: decision table of the unset-value pre-check of STEPattribute::STEPread */
static int substitutable(PrimitiveType t) { return t == INTEGER_TYPE || t == REAL_TYPE || t == NUMBER_TYPE || t == STRING_TYPE; }

extern "C" void h_unset_table()
{
    IN(int, in_base); IN(int, in_optional); IN(int, in_strict); IN(int, in_shape);
    static STEPattribute a; static AttrDescriptor ad; static SDAI_LOGICAL lo; static SDAI_Integer iv; static SDAI_Real rv; static SDAI_String sv;
    /* every base kind the dictionary can report */
    static const PrimitiveType kinds[] = { INTEGER_TYPE, REAL_TYPE, NUMBER_TYPE, STRING_TYPE, BINARY_TYPE, BOOLEAN_TYPE, LOGICAL_TYPE, ENUM_TYPE,
                                           AGGREGATE_TYPE, ARRAY_TYPE, BAG_TYPE, SET_TYPE, LIST_TYPE, ENTITY_TYPE, SELECT_TYPE };
    __CPROVER_assume(0 <= in_base && in_base < 15);
    g_base = kinds[in_base];
    g_opt_obj = &lo; lo.v = in_optional ? LTrue : LFalse;
    a._redefAttr = 0; a._derive = false; a.aDesc = &ad;
    iv = 7; rv = 7.0; sv = "'x'";
    if (g_base == INTEGER_TYPE) a.ptr.i = &iv; else if (g_base == REAL_TYPE || g_base == NUMBER_TYPE) a.ptr.r = &rv; else if (g_base == STRING_TYPE) a.ptr.S = &sv; else a.ptr.i = 0;
    /* the four shapes of an unset value: "$,"  "$)"  ","  ")" */
    __CPROVER_assume(0 <= in_shape && in_shape < 4);
    g_stream_arbitrary = 0;
    if (in_shape == 0) { g_stream_script[0] = '$'; g_stream_script[1] = ','; g_stream_len = 2; }
    else if (in_shape == 1) { g_stream_script[0] = '$'; g_stream_script[1] = ')'; g_stream_len = 2; }
    else if (in_shape == 2) { g_stream_script[0] = ','; g_stream_len = 1; }
    else { g_stream_script[0] = ')'; g_stream_len = 1; }
    istream in; in._m_state = 0; in._m_have = 0; in._m_consumed = 0;
    Severity s = a.STEPread(in, 0, 0, 0, in_strict != 0);
    __CPROVER_assert(in._m_consumed == (in_shape < 2 ? 1u : 0u), "C15/C09 the delimiter after an unset value is not consumed");
    if (in_optional)
        __CPROVER_assert(s == SEVERITY_NULL, "C15 an unset OPTIONAL attribute is always accepted");
    else if (in_strict)
        __CPROVER_assert(s == SEVERITY_INCOMPLETE, "C15 strict mode: an unset required attribute makes the instance incomplete");
    else if (substitutable(g_base) && (in_shape < 2 || g_base == STRING_TYPE)) {
        __CPROVER_assert(s == SEVERITY_USERMSG, "C15 lenient mode: unset required INTEGER/REAL/NUMBER/STRING is accepted with a user message");
        if (g_base == INTEGER_TYPE) __CPROVER_assert(iv == 0, "C15 lenient INTEGER substitute is 0");
        if (g_base == REAL_TYPE || g_base == NUMBER_TYPE) __CPROVER_assert(rv == 0.0, "C15 lenient REAL/NUMBER substitute is 0");
        if (g_base == STRING_TYPE) __CPROVER_assert(sv == "''", "C15 lenient STRING substitute is the empty string literal");
    } else if (substitutable(g_base)) {
        /* empty (not $) numeric parameter: the property's literal text asks for substitution here too; see known_findings.json */
        __CPROVER_assert(s == SEVERITY_USERMSG, "C15 lenient mode, EMPTY numeric parameter (',' or ')' instead of '$'): accepted with a user message");
    } else
        __CPROVER_assert(s == SEVERITY_INCOMPLETE, "C15 lenient mode: every other kind of unset required attribute is incomplete");
}

/* C03: derived attributes */
extern "C" void h_derived()
{
    IN(int, in_c); IN(int, in_base);
    static STEPattribute a; static AttrDescriptor ad; static SDAI_LOGICAL lo; static SDAI_Integer iv;
    g_base = INTEGER_TYPE; g_opt_obj = &lo; lo.v = LFalse;
    a._redefAttr = 0; a._derive = true; a.aDesc = &ad; a.ptr.i = &iv;
    __CPROVER_assume(in_c >= 0 && in_c <= 255);
    __CPROVER_assume(!(in_c == ' ' || in_c == '\t' || in_c == '\n' || in_c == '\r' || in_c == '\f' || in_c == '\v'));
    g_stream_arbitrary = 0; g_stream_script[0] = (char)in_c; g_stream_script[1] = ','; g_stream_len = 2;
    istream in; in._m_state = 0; in._m_have = 0; in._m_consumed = 0;
    Severity s = a.STEPread(in, 0, 0, 0, false);
    if (in_c == '*') __CPROVER_assert(s == SEVERITY_NULL && in._m_consumed == 1, "C03 a derived attribute given as * is accepted and only the * is consumed");
    else __CPROVER_assert(s <= SEVERITY_WARNING, "C03 a value where the attribute is derived raises an error");
}

/* C14 + C03: reference-bearing attribute kinds: the id offset and the instance manager reach the reference readers
 * unchanged; a referenced instance of the wrong type is not stored */
static SDAI_Application_instance *slot;
extern "C" void h_refs()
{
    IN(int, in_kind); IN(int, in_add); IN(int, in_evl); IN(int, in_found);
    static STEPattribute a; static AttrDescriptor ad; static SDAI_LOGICAL lo;
    SDAI_Application_instance *some = (SDAI_Application_instance *)&g_nil_storage[16];
    InstMgrBase *im = (InstMgrBase *)&g_nil_storage[32];
    g_opt_obj = &lo; lo.v = LFalse;
    a._redefAttr = 0; a._derive = false; a.aDesc = &ad;
    __CPROVER_assume(in_kind >= 0 && in_kind < 2);
    g_stream_arbitrary = 0; g_stream_script[0] = '#'; g_stream_script[1] = '1'; g_stream_script[2] = ','; g_stream_len = 3;
    istream in; in._m_state = 0; in._m_have = 0; in._m_consumed = 0;
    g_entityref_addfileid = g_aggr_addfileid = g_sel_addfileid = -12345;
    if (in_kind == 0) {
        g_base = ENTITY_TYPE; a.ptr.c = &slot; slot = some;
        g_ref_result = in_found ? some : S_ENTITY_NULL;
        __CPROVER_assume(in_evl >= SEVERITY_BUG && in_evl <= SEVERITY_NULL); g_evl_result = (Severity)in_evl; g_evl_calls = 0;
        Severity s = a.STEPread(in, im, in_add, 0, false);
        __CPROVER_assert(g_entityref_addfileid == in_add && g_ref_instances == im, "C14 an entity reference is looked up with the caller's id offset in the caller's instance manager");
        if (in_found && in_evl == SEVERITY_NULL) __CPROVER_assert(slot == some, "an entity reference of the right type is stored");
        else __CPROVER_assert(slot == S_ENTITY_NULL, "C03 a missing instance or one of the wrong type is not stored in the attribute");
        if (in_found) __CPROVER_assert(g_evl_calls == 1 && g_evl_desc == g_nonref_desc, "C03 the referenced instance is checked against the attribute's entity type");
        if (in_found && in_evl != SEVERITY_NULL) __CPROVER_assert(s <= (Severity)in_evl, "C03 a reference of the wrong type leaves an error on the attribute");
    } else {
        g_base = SELECT_TYPE; static long sel_storage[64]; a.ptr.sh = (SDAI_Select *)sel_storage;
        a.STEPread(in, im, in_add, 0, false);
        __CPROVER_assert(g_sel_addfileid == in_add && g_sel_instances == im, "C14 a SELECT value is read with the caller's id offset in the caller's instance manager");
    }
}

/* C15 / C03: an inherited attribute that a subtype redeclares is read through the redeclaring attribute (delegation at the top of
 * STEPattribute::STEPread).  The instance reader then looks at the error descriptor of the attribute IT called - the inherited one - so
 * the delegation must hand the mode on and leave what the read reported in that descriptor */
extern "C" void h_redeclared()
{
    IN(int, in_strict); IN(int, in_shape);
    static STEPattribute a, b; static AttrDescriptor ad; static SDAI_LOGICAL lo; static SDAI_Integer iv;
    g_base = INTEGER_TYPE; g_opt_obj = &lo; lo.v = LFalse;      /* SELF\literal_number.the_value : INTEGER, required */
    a._redefAttr = &b; a._derive = false; a.aDesc = &ad; a.ptr.i = 0;
    b._redefAttr = 0; b._derive = false; b.aDesc = &ad; b.ptr.i = &iv; iv = 7;
    __CPROVER_assume(in_shape == 0 || in_shape == 1);
    g_stream_arbitrary = 0; g_stream_script[0] = '$'; g_stream_script[1] = in_shape ? ')' : ','; g_stream_len = 2;
    istream in; in._m_state = 0; in._m_have = 0; in._m_consumed = 0;
    Severity s = a.STEPread(in, 0, 0, 0, in_strict != 0);
    if (in_strict) {
        __CPROVER_assert(s == SEVERITY_INCOMPLETE, "C15 strict mode: `$` for a required redeclared attribute makes the instance incomplete (the mode reaches the redeclaring attribute)");
        __CPROVER_assert(a.Error().severity() == SEVERITY_INCOMPLETE, "C15/C03 what the redeclaring attribute's read reported is in the descriptor of the attribute the instance reader called");
    } else {
        __CPROVER_assert(s == SEVERITY_USERMSG && iv == 0, "C15 lenient mode: `$` for a required redeclared INTEGER is accepted with a user message and 0 is substituted");
        __CPROVER_assert(a.Error().severity() == SEVERITY_USERMSG, "C15 the user message of the substitution is in the descriptor of the attribute the instance reader called");
    }
}

/* C03: `$abc,` - characters between a `$` and the delimiter - is not a clean unset value: what the delimiter check reports (a warning)
 * stays, whether the attribute is OPTIONAL or required, strict or lenient, of any kind */
extern "C" void h_dollar_garbage()
{
    IN(int, in_base); IN(int, in_optional); IN(int, in_strict);
    static STEPattribute a; static AttrDescriptor ad; static SDAI_LOGICAL lo; static SDAI_Integer iv; static SDAI_Real rv; static SDAI_String sv;
    static const PrimitiveType kinds[] = { INTEGER_TYPE, REAL_TYPE, NUMBER_TYPE, STRING_TYPE, BINARY_TYPE, BOOLEAN_TYPE, LOGICAL_TYPE, ENUM_TYPE,
                                           AGGREGATE_TYPE, ARRAY_TYPE, BAG_TYPE, SET_TYPE, LIST_TYPE, ENTITY_TYPE, SELECT_TYPE };
    __CPROVER_assume(0 <= in_base && in_base < 15);
    g_base = kinds[in_base]; g_opt_obj = &lo; lo.v = in_optional ? LTrue : LFalse;
    a._redefAttr = 0; a._derive = false; a.aDesc = &ad; iv = 7; rv = 7.0; sv = "'x'";
    if (g_base == INTEGER_TYPE) a.ptr.i = &iv; else if (g_base == REAL_TYPE || g_base == NUMBER_TYPE) a.ptr.r = &rv; else if (g_base == STRING_TYPE) a.ptr.S = &sv; else a.ptr.i = 0;
    g_stream_arbitrary = 0; g_stream_script[0] = '$'; g_stream_script[1] = 'x'; g_stream_script[2] = ','; g_stream_len = 3;
    istream in; in._m_state = 0; in._m_have = 0; in._m_consumed = 0;
    g_cri_garbage = 1;      /* contract of CheckRemainingInput: garbage before the delimiter raises a warning in the descriptor */
    Severity s = a.STEPread(in, 0, 0, 0, in_strict != 0);
    g_cri_garbage = 0;
    __CPROVER_assert(s < SEVERITY_USERMSG && a.Error().severity() < SEVERITY_USERMSG, "C03 characters between a `$` and the delimiter are reported (worse than a user message), OPTIONAL or not, strict or not");
}

/* C03: what the aggregate reader or the select reader reports for an attribute's value is the attribute's result and stays in the
 * attribute's descriptor (the instance reader looks there): a wrong element, a missing required aggregate, a select value outside the list */
extern "C" void h_sub_reader_errors()
{
    IN(int, in_kind); IN(int, in_sev); IN(int, in_garbage);
    static STEPattribute a; static AttrDescriptor ad; static SDAI_LOGICAL lo; static long storage[64];
    static const PrimitiveType kinds[] = { AGGREGATE_TYPE, ARRAY_TYPE, BAG_TYPE, SET_TYPE, LIST_TYPE, SELECT_TYPE };
    __CPROVER_assume(in_kind >= 0 && in_kind < 6);
    __CPROVER_assume(in_sev == SEVERITY_NULL || in_sev == SEVERITY_USERMSG || in_sev == SEVERITY_INCOMPLETE || in_sev == SEVERITY_WARNING || in_sev == SEVERITY_INPUT_ERROR);
    g_base = kinds[in_kind]; g_opt_obj = &lo; lo.v = LFalse;
    a._redefAttr = 0; a._derive = false; a.aDesc = &ad; if (in_kind < 5) a.ptr.a = (STEPaggregate *)storage; else a.ptr.sh = (SDAI_Select *)storage;
    g_stream_arbitrary = 0; g_stream_script[0] = '('; g_stream_script[1] = ')'; g_stream_script[2] = ','; g_stream_len = 3;
    istream in; in._m_state = 0; in._m_have = 0; in._m_consumed = 0;
    g_sub_sev = (Severity)in_sev; g_aggr_calls = g_sel_calls = 0; g_cri_garbage = in_garbage != 0;
    Severity s = a.STEPread(in, 0, 0, 0, false);
    g_sub_sev = SEVERITY_NULL; g_cri_garbage = 0;
    __CPROVER_assert((in_kind < 5 ? g_aggr_calls : g_sel_calls) == 1 && (in_kind < 5 ? g_aggr_err : g_sel_err) == &a.Error(), "the value is read once, with the attribute's own descriptor");
    __CPROVER_assert((int)s <= in_sev && (int)a.Error().severity() <= in_sev, "C03 what the aggregate / select reader reports is the attribute's result and stays in its descriptor");
    if (in_garbage && in_sev >= SEVERITY_WARNING) __CPROVER_assert(s <= SEVERITY_WARNING, "C03 garbage between the value and the delimiter is reported");
    if (!in_garbage && in_sev == SEVERITY_NULL) __CPROVER_assert(s == SEVERITY_NULL, "a clean value reads clean");
}
