/* Unit pretty_type_c (C extraction): TYPE_body_out, the printer of a type's body - keyword, bounds, UNIQUE / OPTIONAL, width and FIXED (C07) */
#include <stdio.h>
#include <stdlib.h>
#include <string.h>
#include <stdarg.h>
#include <stdbool.h>
#include "verif.h"
#include "express/scope.h"
#include "express/type.h"
#include "express/expr.h"
#include "express/error.h"
#include "express/dict.h"
#define EV 12
static int g_n; static const char *g_fmt[EV]; static const char *g_arg[EV]; static int g_kind[EV]; static void *g_ptr[EV];   /* kind: 'w' wrap, 'r' raw, 'E' EXPR_out, 'B' bounds, 'H' head */
static void rec(int k, const char *fmt, const char *arg, void *p) { if (g_n < EV) { g_kind[g_n] = k; g_fmt[g_n] = fmt; g_arg[g_n] = arg; g_ptr[g_n] = p; } g_n++; }
void wrap(const char *fmt, ...) { va_list ap; va_start(ap, fmt); const char *a = 0; if (!strcmp(fmt, " %s") || !strcmp(fmt, ":%s")) a = va_arg(ap, const char *); va_end(ap); rec('w', fmt, a, 0); }
void raw(const char *fmt, ...) { rec('r', fmt, 0, 0); }
void EXPR_out(Expression e, int p) { (void)p; rec('E', 0, 0, e); }
void EXPRbounds_out(TypeBody tb) { rec('B', 0, 0, tb); }
void TYPE_head_out(Type t, int level) { (void)level; rec('H', 0, 0, t); }
void ERRORreport_with_symbol(enum ErrorCode c, Symbol *s, ...) { (void)c; (void)s; }
Symbol error_sym;
void HASHlistinit_by_type(Hash_Table t, HashEntry *e, char c) { (void)t; (void)e; (void)c; }
void *DICTdo(DictionaryEntry *de) { (void)de; return 0; }
#include "type_extract.inc"

static int is(int i, int k, const char *fmt) { return i < g_n && i < EV && g_kind[i] == k && (fmt == 0 || !strcmp(g_fmt[i], fmt)); }
void h_TYPE_body_out(void)
{
    IN(int, in_kind); IN(int, in_width); IN(int, in_fixed); IN(int, in_unique); IN(int, in_optional); IN(int, in_tag);
    static const int kinds[] = { integer_, real_, string_, binary_, boolean_, logical_, number_, entity_, generic_, aggregate_, array_, bag_, set_, list_ };
    static const char *kw[] = { " INTEGER", " REAL", " STRING", " BINARY", " BOOLEAN", " LOGICAL", " NUMBER", " %s", " GENERIC", " AGGREGATE", " ARRAY", " BAG", " SET", " LIST" };
    __CPROVER_assume(in_kind >= 0 && in_kind < 14);
    static struct Scope_ t, ent, base, tagt; static struct TypeHead_ th; static struct TypeBody_ tb; static struct Expression_ width; static char en[2] = "e", tn[2] = "g";
    t.u.type = &th; th.body = &tb; th.head = 0; tb.type = (enum type_enum)kinds[in_kind]; tb.entity = &ent; ent.symbol.name = en; tb.base = &base;
    tb.precision = in_width ? &width : (Expression)0; tb.flags.fixed = in_fixed != 0; tb.flags.unique = in_unique != 0; tb.flags.optional = in_optional != 0;
    tb.tag = in_tag ? &tagt : (Type)0; tagt.symbol.name = tn;
    g_n = 0;
    TYPE_body_out(&t, 2);
    int i = 0, ok = 1;
    ok &= is(i, 'w', kw[in_kind]); if (in_kind == 7) ok &= g_arg[0] == en; i++;
    if (in_kind == 8 || in_kind == 9) { if (in_tag) { ok &= is(i, 'w', ":%s") && g_arg[i] == tn; i++; } }
    if (in_kind >= 9) {
        if (in_kind >= 10) { ok &= is(i, 'B', 0) && g_ptr[i] == &tb; i++; }
        ok &= is(i, 'w', " OF"); i++;
        if (in_kind == 10 || in_kind == 13) { if (in_unique) { ok &= is(i, 'w', " UNIQUE"); i++; } if (in_optional) { ok &= is(i, 'w', " OPTIONAL"); i++; } }
        ok &= is(i, 'H', 0) && g_ptr[i] == &base; i++;
    }
    if (in_width) { ok &= is(i, 'w', " ( "); i++; ok &= is(i, 'E', 0) && g_ptr[i] == &width; i++; ok &= is(i, 'r', " )"); i++; }
    if (in_fixed) { ok &= is(i, 'w', " FIXED"); i++; }
    __CPROVER_assert(ok && g_n == i, "C07 a type body is printed as: keyword (entity name / tag), for aggregates the bounds, OF, UNIQUE and OPTIONAL as declared and the element type, then the width and FIXED exactly as declared - for every kind of type");
}
