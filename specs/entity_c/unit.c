/* Unit entity_c: src/express/entity.c compiled unmodified (Route C) */
#include <stdio.h>
#include <stdlib.h>
#include <string.h>
#include "verif.h"
#include "express/scope.h"   /* first inclusion must be the rewritten copy (union -> struct), see unit.json */
#include "src/express/entity.c"
char *VARget_simple_name(Variable v) { return v->name->symbol.name; }

/* contract of ENTITYget_named_attribute used as a callee model in unit resolve_c:
 * the result is non-null iff the name is an attribute of the entity itself or of any of its ancestors */
static struct Scope_ ent[3]; static struct Entity_ ee[3]; static struct Linked_List_ al[3], sl[3]; static struct Link_ am[3], a1[3], sm[3], s1[3];
static struct Variable_ var[3]; static struct Expression_ vn[3]; static char nx[2] = "x", ny[2] = "y";
void h_named_attribute(void)
{
    IN(int, in_level);
    __CPROVER_assume(in_level >= 0 && in_level <= 3);          /* level that declares "x"; 3 = none */
    for (int k = 0; k < 3; k++) {
        ent[k].u.entity = &ee[k];
        al[k].mark = &am[k]; am[k].next = &a1[k]; am[k].prev = &a1[k]; a1[k].next = &am[k]; a1[k].prev = &am[k]; a1[k].data = &var[k];
        var[k].name = &vn[k]; vn[k].symbol.name = (k == in_level) ? nx : ny;
        ee[k].attributes = &al[k];
        sl[k].mark = &sm[k];
        if (k < 2) { sm[k].next = &s1[k]; sm[k].prev = &s1[k]; s1[k].next = &sm[k]; s1[k].prev = &sm[k]; s1[k].data = &ent[k + 1]; }
        else { sm[k].next = &sm[k]; sm[k].prev = &sm[k]; }
        ee[k].supertypes = &sl[k];
    }
    Variable r = ENTITYget_named_attribute(&ent[0], nx);
    if (in_level < 3) __CPROVER_assert(r == &var[in_level], "C04 an attribute declared by the entity or by any of its ancestors is found by name");
    else __CPROVER_assert(r == 0, "C04 a name that no ancestor declares is not found");
}

/* ---- VARfind (schema.c) + ENTITYfind_inherited_attribute (entity.c): the contract used as a callee model by unit resolve_c/h_inverse:
 *      strict look-up of an attribute name in an entity finds it iff the entity itself or one of its ancestors declares it;
 *      an attribute of a subtype is never returned ---- */
#include "varfind_extract.inc"
static int g_decl_level; static struct Dictionary_ *g_tab[3]; static struct Variable_ g_var[3];
char DICT_type;
void *DICTlookup(Dictionary d, char *name) { (void)name; for (int k = 0; k < 3; k++) if (d == (Dictionary)g_tab[k] && k == g_decl_level) { DICT_type = OBJ_VARIABLE; return &g_var[k]; } return 0; }
static struct Scope_ en[3]; static struct Entity_ e3[3]; static struct Linked_List_ sup[3], sub[3]; static struct Link_ pm[3], p1[3], bm[3], b1[3]; static long tabs[3];
static char nB[2] = "B", nE[2] = "E", nP[2] = "P", nQ[2] = "Q";
static void mk_chain(void)
{
    en[0].symbol.name = nB; en[1].symbol.name = nE; en[2].symbol.name = nP;
    for (int k = 0; k < 3; k++) {
        en[k].u.entity = &e3[k]; en[k].type = OBJ_ENTITY; en[k].search_id = 0; g_tab[k] = (struct Dictionary_ *)&tabs[k]; en[k].symbol_table = (Dictionary)g_tab[k];
        sup[k].mark = &pm[k]; sub[k].mark = &bm[k]; e3[k].supertypes = &sup[k]; e3[k].subtypes = &sub[k];
        /* supertype links: B(0) -> E(1) -> P(2); subtype links the other way round */
        if (k < 2) { pm[k].next = &p1[k]; pm[k].prev = &p1[k]; p1[k].next = &pm[k]; p1[k].prev = &pm[k]; p1[k].data = &en[k + 1]; } else { pm[k].next = &pm[k]; pm[k].prev = &pm[k]; }
        if (k > 0) { bm[k].next = &b1[k]; bm[k].prev = &b1[k]; b1[k].next = &bm[k]; b1[k].prev = &bm[k]; b1[k].data = &en[k - 1]; } else { bm[k].next = &bm[k]; bm[k].prev = &bm[k]; }
    }
}
void h_VARfind(void)
{
    IN(int, in_level);          /* who declares "x": 0 = the subtype B only, 1 = the entity E itself, 2 = its supertype P, 3 = nobody */
    __CPROVER_assume(in_level >= 0 && in_level <= 3);
    mk_chain();
    g_decl_level = in_level; __SCOPE_search_id = 7;
    Variable r = VARfind(&en[1], nx, 1);
    if (in_level == 1 || in_level == 2) __CPROVER_assert(r == &g_var[in_level], "C04 the strict attribute look-up finds an attribute declared by the entity or inherited from a supertype");
    else __CPROVER_assert(r == 0, "C04 the strict attribute look-up never returns an attribute that only a subtype declares, nor an undeclared name");
}

/* ---- ENTITYresolve_attr_ref: resolution of `SELF\\X.a` / `a` in UNIQUE rules, inverse and derived references.
 *      C04: a reference that cannot be resolved is reported (once) and yields no attribute; C20: the report is positioned at the
 *      offending symbol and quotes the attribute and the entity IN WHICH THE LOOK-UP FAILED (the named supertype for the qualified
 *      form, the entity itself otherwise) ---- */
#include <stdarg.h>
static int g_rep_calls; static enum ErrorCode g_rep_code; static Symbol *g_rep_sym; static const char *g_rep_a1, *g_rep_a2;
void ERRORreport_with_symbol(enum ErrorCode code, Symbol *sym, ...)
{
    va_list ap; va_start(ap, sym);
    g_rep_calls++; g_rep_code = code; g_rep_sym = sym; g_rep_a1 = va_arg(ap, const char *);
    g_rep_a2 = (code == IMPLICIT_DOWNCAST) ? 0 : va_arg(ap, const char *);
    va_end(ap);
}
void h_attr_ref(void)
{
    IN(int, in_level); IN(int, in_group);      /* group: 0 = unqualified, 1 = SELF\E (the entity itself), 2 = SELF\P (its supertype), 3 = SELF\Q (unknown), 4 = SELF\B (a subtype) */
    __CPROVER_assume(in_level >= 0 && in_level <= 3 && in_group >= 0 && in_group <= 4);
    mk_chain();
    g_decl_level = in_level; __SCOPE_search_id = 7; g_rep_calls = 0;
    static Symbol aref, gref; aref.name = nx; aref.line = 42;
    gref.name = in_group == 1 ? nE : in_group == 2 ? nP : in_group == 3 ? nQ : nB; gref.line = 41;
    Variable r = ENTITYresolve_attr_ref(&en[1], in_group ? &gref : (Symbol *)0, &aref);
    if (in_group == 0) {
        if (in_level == 1 || in_level == 2) __CPROVER_assert(r == &g_var[in_level] && g_rep_calls == 0, "an attribute of the entity or of a supertype is resolved silently");
        else if (in_level == 0) __CPROVER_assert(r == &g_var[0] && g_rep_calls == 1 && g_rep_code == IMPLICIT_DOWNCAST && g_rep_sym == &aref && g_rep_a1 == nB, "C20 an attribute found only in a subtype is resolved with one downcast warning at the reference, naming that subtype");
        else __CPROVER_assert(r == 0 && g_rep_calls == 1 && g_rep_code == UNKNOWN_ATTR_IN_ENTITY && g_rep_sym == &aref && g_rep_a1 == nx && g_rep_a2 == nE,
                              "C04/C20 an unqualified reference to an attribute nobody declares is reported once, at the reference, quoting the attribute and the entity");
    } else if (in_group == 3 || in_group == 4) {
        __CPROVER_assert(r == 0 && g_rep_calls == 1 && g_rep_code == UNKNOWN_SUPERTYPE && g_rep_sym == &gref && g_rep_a1 == gref.name && g_rep_a2 == nE,
                         "C04/C20 a qualifier that is no supertype of the entity is reported once, at the qualifier, quoting it and the entity; nothing is resolved");
    } else {
        int lvl = in_group;     /* E = 1, P = 2: the entity whose own table is consulted */
        if (in_level == lvl) __CPROVER_assert(r == &g_var[lvl] && g_rep_calls == 0, "a qualified reference to an attribute the named entity declares is resolved silently");
        else __CPROVER_assert(r == 0 && g_rep_calls == 1 && g_rep_code == UNKNOWN_ATTR_IN_ENTITY && g_rep_sym == &aref && g_rep_a1 == nx && g_rep_a2 == (lvl == 1 ? nE : nP),
                              "C04/C20 a qualified reference to an attribute the named entity does not declare is reported once, at the reference, quoting the attribute and THAT entity (where the look-up failed)");
    }
}
