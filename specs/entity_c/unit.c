/* Unit entity_c: src/express/entity.c compiled unmodified (Route C) */
#include <stdio.h>
#include <stdlib.h>
#include <string.h>
#include "verif.h"
#include "express/scope.h"   /* first inclusion must be the rewritten copy (union -> struct), see unit.json */
#include "src/express/entity.c"
char *VARget_simple_name(Variable v) { return v->name->symbol.name; }

/* contract of ENTITYget_named_attribute used as a callee model in unit resolve_c:
 * the result is non-null iff the name is an attribute of the entity itself or of any of its ancestors */
static struct Scope_ ent[3]; static struct Entity_ ee[3]; static struct Linked_List_ al[3], sl[3]; static struct Link_ am[3], a1[3], sm[3], s1[3];
static struct Variable_ var[3]; static struct Expression_ vn[3]; static char nx[2] = "x", ny[2] = "y";
void h_named_attribute(void)
{
    IN(int, in_level);
    __CPROVER_assume(in_level >= 0 && in_level <= 3);          /* level that declares "x"; 3 = none */
    for (int k = 0; k < 3; k++) {
        ent[k].u.entity = &ee[k];
        al[k].mark = &am[k]; am[k].next = &a1[k]; am[k].prev = &a1[k]; a1[k].next = &am[k]; a1[k].prev = &am[k]; a1[k].data = &var[k];
        var[k].name = &vn[k]; vn[k].symbol.name = (k == in_level) ? nx : ny;
        ee[k].attributes = &al[k];
        sl[k].mark = &sm[k];
        if (k < 2) { sm[k].next = &s1[k]; sm[k].prev = &s1[k]; s1[k].next = &sm[k]; s1[k].prev = &sm[k]; s1[k].data = &ent[k + 1]; }
        else { sm[k].next = &sm[k]; sm[k].prev = &sm[k]; }
        ee[k].supertypes = &sl[k];
    }
    Variable r = ENTITYget_named_attribute(&ent[0], nx);
    if (in_level < 3) __CPROVER_assert(r == &var[in_level], "C04 an attribute declared by the entity or by any of its ancestors is found by name");
    else __CPROVER_assert(r == 0, "C04 a name that no ancestor declares is not found");
}
