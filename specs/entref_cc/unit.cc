/* Unit entref_cc (CXX-FN): ReadEntityRef extracted from sdaiApplication_instance.cc */
#define EXPDICT_H
#define instmgr_h
#include <iostream>
#include "cxx/verif_stream_model.h"
#include "clstepcore/sdai.h"
#include "repo/expdict_iface.h"
#include "clstepcore/mgrnode.h"
#include "clstepcore/STEPattribute.h"
#include "clstepcore/read_func.h"
#include "clutils/Str.h"
#include <stdio.h>
static int g_find_calls, g_find_id; static void *g_find_result; static SDAI_Application_instance *g_node_inst; static void *g_find_mgr;
static MgrNodeBase *verif_FindFileId(InstMgrBase *im, int id) { g_find_calls++; g_find_id = id; g_find_mgr = im; return (MgrNodeBase *)g_find_result; }
static SDAI_Application_instance *verif_GetSTEPentity(MgrNodeBase *mn) { (void)mn; return g_node_inst; }
#include "entref_extract.inc"
#include "src/clutils/errordesc.cc"
#include "verif.h"
extern "C" { int nondet_int(); }

static int g_int_value, g_int_ok, g_int_reads;
namespace std {
istream &istream::operator>>(int &v) { g_int_reads++; if (g_int_ok) v = g_int_value; else _m_state |= failbit; return *this; }
}
static long g_storage[64];

extern "C" void h_ReadEntityRef()
{
    IN(int, in_c); IN(int, in_id); IN(int, in_add); IN(int, in_ok); IN(int, in_found); IN(int, in_hasinst);
    __CPROVER_assume(in_c >= 1 && in_c <= 255);
    __CPROVER_assume(!(in_c == ' ' || in_c == '\t' || in_c == '\n' || in_c == '\r' || in_c == '\f' || in_c == '\v'));
    __CPROVER_assume(in_id >= 0 && in_add >= 0 && in_id <= 1000000000 && in_add <= 1000000000);
    g_stream_arbitrary = 0; g_stream_script[0] = (char)in_c; g_stream_script[1] = ','; g_stream_len = 2;
    istream in; in._m_state = 0; in._m_have = 0; in._m_consumed = 0;
    g_int_value = in_id; g_int_ok = in_ok != 0; g_int_reads = 0;
    InstMgrBase &mgr = *(InstMgrBase *)&g_storage[40]; MgrNodeBase &node = *(MgrNodeBase *)&g_storage[24];
    SDAI_Application_instance *some = (SDAI_Application_instance *)&g_storage[8];
    g_find_calls = 0; g_find_result = in_found ? &node : 0; g_node_inst = in_hasinst ? some : 0;
    ErrorDescriptor err;
    SDAI_Application_instance *r = ReadEntityRef(in, &err, ",)", &mgr, in_add);
    if ((in_c == '#' || in_c == '@') && in_ok) {
        __CPROVER_assert(g_find_calls == 1 && g_find_id == in_id + in_add, "C14 a reference #n read with id offset k is looked up as instance n+k, exactly once, and under no other number");
        __CPROVER_assert(g_find_mgr == (void *)&mgr, "C14 the look-up goes to the instance manager that was passed in");
        if (in_found && in_hasinst) __CPROVER_assert(r == some, "the referenced instance is returned");
        else {
            __CPROVER_assert(r == S_ENTITY_NULL, "C03 a reference to an instance that does not exist yields no instance");
            __CPROVER_assert(err.severity() <= SEVERITY_WARNING, "C03 a reference to an instance that does not exist raises an error");
        }
        if (in_c == '@') __CPROVER_assert(err.severity() <= SEVERITY_WARNING, "C09 '@' instead of '#' is reported");
    } else {
        __CPROVER_assert(g_find_calls == 0 && r == S_ENTITY_NULL, "C09 something that is not an entity reference yields no instance");
        if (in_c == '#' || in_c == '@') __CPROVER_assert(err.severity() <= SEVERITY_WARNING, "C09 a '#' without a number raises an error");
        else __CPROVER_assert(in._m_consumed == 0, "C09 a character that does not start a reference is put back");
    }
}
