/* Unit entref_cc (CXX-FN): ReadEntityRef extracted from sdaiApplication_instance.cc */
#define EXPDICT_H
#define instmgr_h
#define private public
#define protected public
#include <iostream>
#include "cxx/verif_stream_model.h"
#include "clstepcore/sdai.h"
#include "repo/expdict_iface.h"
#include "clstepcore/mgrnode.h"
#include "clstepcore/STEPattribute.h"
#include "clstepcore/read_func.h"
#include "clutils/Str.h"
#include <stdio.h>
static int g_find_calls, g_find_id; static void *g_find_result; static SDAI_Application_instance *g_node_inst; static void *g_find_mgr;
static MgrNodeBase *verif_FindFileId(InstMgrBase *im, int id) { g_find_calls++; g_find_id = id; g_find_mgr = im; return (MgrNodeBase *)g_find_result; }
static SDAI_Application_instance *verif_GetSTEPentity(MgrNodeBase *mn) { (void)mn; return g_node_inst; }
#include "entref_extract.inc"
/* ---- ghosts for EntityValidLevel: what the dictionary says about the two types ---- */
class STEPcomplex;
static PrimitiveType g_ed_kind; static int g_isa, g_part_exists, g_iscomplex;
PrimitiveType TypeDescriptor::NonRefType() const { return g_ed_kind; }
const TypeDescriptor *EntityDescriptor::IsA(const TypeDescriptor *t) const { if (g_isa) return (TypeDescriptor *)t; return (TypeDescriptor *)0; }   /* (the front end drops the const of the declared return type) */
const char *TypeDescriptor::Name(const char *) const { return "t"; }
static STEPcomplex *verif_complex_sc(SDAI_Application_instance *se) { return (STEPcomplex *)se; }
static int verif_EntityExists(STEPcomplex *, const char *) { return g_part_exists; }
#include "evl_extract.inc"
#include "src/clutils/errordesc.cc"
#include "verif.h"
extern "C" { int nondet_int(); }

static int g_int_value, g_int_ok, g_int_reads;
namespace std {
istream &istream::operator>>(int &v) { g_int_reads++; if (g_int_ok) v = g_int_value; else _m_state |= failbit; return *this; }
}
static long g_storage[64];

extern "C" void h_ReadEntityRef()
{
    IN(int, in_c); IN(int, in_id); IN(int, in_add); IN(int, in_ok); IN(int, in_found); IN(int, in_hasinst);
    __CPROVER_assume(in_c >= 1 && in_c <= 255);
    __CPROVER_assume(!(in_c == ' ' || in_c == '\t' || in_c == '\n' || in_c == '\r' || in_c == '\f' || in_c == '\v'));
    __CPROVER_assume(in_id >= 0 && in_add >= 0 && in_id <= 1000000000 && in_add <= 1000000000);
    g_stream_arbitrary = 0; g_stream_script[0] = (char)in_c; g_stream_script[1] = ','; g_stream_len = 2;
    istream in; in._m_state = 0; in._m_have = 0; in._m_consumed = 0;
    g_int_value = in_id; g_int_ok = in_ok != 0; g_int_reads = 0;
    InstMgrBase &mgr = *(InstMgrBase *)&g_storage[40]; MgrNodeBase &node = *(MgrNodeBase *)&g_storage[24];
    SDAI_Application_instance *some = (SDAI_Application_instance *)&g_storage[8];
    g_find_calls = 0; g_find_result = in_found ? &node : 0; g_node_inst = in_hasinst ? some : 0;
    ErrorDescriptor err;
    SDAI_Application_instance *r = ReadEntityRef(in, &err, ",)", &mgr, in_add);
    if ((in_c == '#' || in_c == '@') && in_ok) {
        __CPROVER_assert(g_find_calls == 1 && g_find_id == in_id + in_add, "C14 a reference #n read with id offset k is looked up as instance n+k, exactly once, and under no other number");
        __CPROVER_assert(g_find_mgr == (void *)&mgr, "C14 the look-up goes to the instance manager that was passed in");
        if (in_found && in_hasinst) __CPROVER_assert(r == some, "the referenced instance is returned");
        else {
            __CPROVER_assert(r == S_ENTITY_NULL, "C03 a reference to an instance that does not exist yields no instance");
            __CPROVER_assert(err.severity() <= SEVERITY_WARNING, "C03 a reference to an instance that does not exist raises an error");
        }
        if (in_c == '@') __CPROVER_assert(err.severity() <= SEVERITY_WARNING, "C09 '@' instead of '#' is reported");
    } else {
        __CPROVER_assert(g_find_calls == 0 && r == S_ENTITY_NULL, "C09 something that is not an entity reference yields no instance");
        if (in_c == '#' || in_c == '@') __CPROVER_assert(err.severity() <= SEVERITY_WARNING, "C09 a '#' without a number raises an error");
        else __CPROVER_assert(in._m_consumed == 0, "C09 a character that does not start a reference is put back");
    }
}

/* C03: a reference is accepted exactly when the referenced instance is of the attribute's entity type or a descendant (or a complex
 * instance that has that part); every other case leaves an error in the descriptor */
extern "C" void h_EntityValidLevel()
{
    IN(int, in_isa); IN(int, in_complex); IN(int, in_part); IN(int, in_have_se); IN(int, in_have_ed); IN(int, in_edkind); IN(int, in_have_desc);
    static const PrimitiveType kinds[] = { ENTITY_TYPE, INTEGER_TYPE, SELECT_TYPE, AGGREGATE_TYPE };
    __CPROVER_assume(in_edkind >= 0 && in_edkind < 4);
    g_ed_kind = kinds[in_edkind]; g_isa = in_isa; g_part_exists = in_part;
    SDAI_Application_instance *se = in_have_se ? (SDAI_Application_instance *)malloc(sizeof(SDAI_Application_instance)) : 0;
    EntityDescriptor *ed = in_have_ed ? (EntityDescriptor *)malloc(sizeof(EntityDescriptor)) : 0;
    if (se) { se->eDesc = in_have_desc ? (EntityDescriptor *)malloc(sizeof(EntityDescriptor)) : 0; se->STEPfile_id = 5; se->_complex = in_complex != 0; }
    ErrorDescriptor err;
    Severity s = EntityValidLevel(se, ed, &err);
    int ok = ed && g_ed_kind == ENTITY_TYPE && se && in_have_desc && (in_isa || (in_complex && in_part));
    if (ok) __CPROVER_assert(s == SEVERITY_NULL && err.severity() == SEVERITY_NULL, "an instance of the required entity type, of a descendant, or a complex instance with that part, is accepted");
    else __CPROVER_assert(s <= SEVERITY_WARNING && err.severity() <= SEVERITY_WARNING, "C03 a reference to an instance whose type is not the attribute's entity type (nor a descendant, nor a complex instance with that part) leaves an error");
}
