/* Unit exppp_alg_c: the formal-parameter printer ALGargs_out extracted from src/exppp/pretty_alg.c */
#include <stdio.h>
#include <stdlib.h>
#include <string.h>
#include <stdarg.h>
#include <stdbool.h>
#include "verif.h"
#include "express/scope.h"   /* first inclusion must be the rewritten copy (union -> struct), see unit.json */
#include "express/express.h"
#include "express/variable.h"
int indent2, exppp_continuation_indent = 4; const int NOLEVEL = -1;
/* ---- transcript: one code per piece of output ---- */
enum { T_INDENT = 1, T_VAR, T_COMMA, T_COLON, T_SEMI, T_NAME0 = 10, T_TYPE0 = 20, T_OTHER = 99 };
#define TRN 18
static int g_tr[TRN], g_trn; static Expression g_names[3]; static Type g_types[2];
static void rec(int t) { if (g_trn < TRN) g_tr[g_trn] = t; g_trn++; }
void raw(const char *fmt, ...) { rec(!strcmp(fmt, "%*s") ? T_INDENT : !strcmp(fmt, "VAR ") ? T_VAR : !strcmp(fmt, ", ") ? T_COMMA : !strcmp(fmt, ";\n") ? T_SEMI : T_OTHER); }
void wrap(const char *fmt, ...) { rec(!strcmp(fmt, " : ") ? T_COLON : T_OTHER); }
void EXPR_out(Expression e, int paren) { (void)paren; int k = T_OTHER; for (int i = 0; i < 3; i++) if (g_names[i] == e) k = T_NAME0 + i; rec(k); }
void TYPE_head_out(Type t, int level) { (void)level; __CPROVER_assert(t != 0, "C06 TYPE_head_out is given a type (its body dereferences it)"); int k = T_OTHER; for (int i = 0; i < 2; i++) if (g_types[i] == t) k = T_TYPE0 + i; rec(k); }
#include "alg_extract.inc"
int exppp_nesting_indent = 2; static int g_proc_pieces;
void first_newline(void) {} void exppp_ref_info(Symbol *s) { (void)s; } void ALGscope_out(Scope s, int l) { (void)s; (void)l; } void STMTlist_out(Linked_List l, int lv) { (void)l; (void)lv; } void tail_comment(const char *n) { (void)n; }
#include "proc_extract.inc"

/* C07: formal parameters are printed in order; adjacent parameters share one `a, b : type` group exactly when they have the same type
 * and the same VAR-ness; VAR is printed in front of exactly the groups whose parameters are VAR */
void h_ALGargs_out(void)
{
    IN(int, in_n); IN(int, in_t0); IN(int, in_t1); IN(int, in_t2); IN(int, in_v0); IN(int, in_v1); IN(int, in_v2);
    static struct Variable_ v[3]; static struct Expression_ nm[3]; static struct Scope_ ty[2];
    static struct Linked_List_ args; static struct Link_ mk, ln[3];
    __CPROVER_assume(in_n >= 1 && in_n <= 3);
    int t[3] = { in_t0 != 0, in_t1 != 0, in_t2 != 0 }, var[3] = { in_v0 != 0, in_v1 != 0, in_v2 != 0 };
    for (int i = 0; i < 2; i++) g_types[i] = &ty[i];
    args.mark = &mk; struct Link_ *last = &mk;
    for (int i = 0; i < 3; i++) { g_names[i] = &nm[i]; v[i].name = &nm[i]; v[i].type = &ty[t[i]]; v[i].flags.var = var[i];
        if (i < in_n) { last->next = &ln[i]; ln[i].prev = last; ln[i].data = &v[i]; last = &ln[i]; } }
    last->next = &mk; mk.prev = last;
    g_trn = 0;
    ALGargs_out(&args, 2);
    /* expected transcript */
    int ex[TRN], n = 0;
    for (int i = 0; i < 3; i++) if (i < in_n) {
        if (i == 0 || t[i] != t[i - 1] || var[i] != var[i - 1]) {
            if (i > 0) { ex[n++] = T_COLON; ex[n++] = T_TYPE0 + t[i - 1]; ex[n++] = T_SEMI; }
            ex[n++] = T_INDENT; if (var[i]) ex[n++] = T_VAR; ex[n++] = T_NAME0 + i;
        } else { ex[n++] = T_COMMA; ex[n++] = T_NAME0 + i; }
    }
    ex[n++] = T_COLON; ex[n++] = T_TYPE0 + t[in_n - 1];
    __CPROVER_assert(g_trn == n, "C07 the parameter list is printed with one group per run of parameters of the same type and VAR-ness");
    int same = 1; for (int k = 0; k < TRN; k++) if (k < n && k < g_trn && g_tr[k] != ex[k]) same = 0;
    __CPROVER_assert(same, "C07 names, types, VAR keywords and separators of a formal parameter list are printed in declaration order; VAR stands in front of exactly the VAR groups");
}

/* C06/C07: a procedure is printed with a parenthesised parameter list exactly when it has parameters; without parameters nothing
 * asks for the type of a parameter that does not exist */
void h_PROC_out(void)
{
    IN(int, in_has);
    static struct Scope_ p, ty0; static struct Procedure_ pr; static struct Variable_ v0; static struct Expression_ nm0; static struct Linked_List_ args; static struct Link_ mk, l0; static char pn[2] = "p";
    p.u.proc = &pr; p.symbol.name = pn; pr.builtin = 0; pr.body = 0;
    g_types[0] = &ty0; g_names[0] = &nm0; v0.name = &nm0; v0.type = &ty0; v0.flags.var = 0;
    args.mark = &mk; mk.next = &l0; l0.prev = &mk; l0.next = &mk; mk.prev = &l0; l0.data = &v0;
    pr.parameters = in_has ? &args : 0;
    g_trn = 0;
    PROC_out(&p, 0);
    int names = 0, types = 0; for (int k = 0; k < TRN; k++) if (k < g_trn) { if (g_tr[k] == T_NAME0) names++; if (g_tr[k] == T_TYPE0) types++; }
    if (in_has) __CPROVER_assert(names == 1 && types == 1, "C07 the parameter of a procedure is printed once with its type");
    else __CPROVER_assert(names == 0 && types == 0, "C07 a procedure without parameters is printed without a parameter list");
}
