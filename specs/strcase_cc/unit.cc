/* Unit strcase_cc (CXX-FN): case helpers extracted from Str.cc, BUFSIZ scaled to 16 */
#include <stdio.h>
#include <ctype.h>
#include <string.h>
#include <string>
#undef BUFSIZ
#define BUFSIZ 16
#include "strcase_extract.inc"
#include "verif.h"

#define WN 20
/* C05: the case helpers are applied to keywords and enumeration items taken from the exchange file: they must handle
 * words of any length; C09: the result is the word in the requested case, nothing else changed */
extern "C" void h_case_helpers()
{
    IN_ARR(char, in_w, WN + 1); IN(int, in_which);
    in_w[WN] = 0;
    __CPROVER_assume(in_which >= 0 && in_which < 3);
    std::string s;
    const char *r = in_which == 0 ? StrToLower(in_w, s) : in_which == 1 ? StrToUpper(in_w, s) : StrToConstant(in_w, s);
    int n = (int)strlen(in_w), ok = (int)s.size() == n;
    for (int i = 0; i < WN; i++) if (i < n) {
        char want = in_which == 0 ? (char)tolower(in_w[i]) : (in_which == 2 && (in_w[i] == '/' || in_w[i] == '.')) ? '_' : (char)toupper(in_w[i]);
        if (s[i] != want) ok = 0;
    }
    __CPROVER_assert(ok && r == s.c_str(), "C09 the case helpers return the whole word in the requested case ('/' and '.' as '_' for constants)");
}

/* C05: PrettyTmpName is handed entity keywords taken from the exchange file (Registry::FindEntity, InstMgr look-ups): for a name of any
 * length, with underscores anywhere, every write stays inside its static buffer of BUFSIZ+1 bytes (cbmc's bounds checks) and the result
 * is terminated; PrettyNewName's copy fits the block it allocates */
extern "C" void h_pretty_name()
{
    IN_ARR(char, in_w, WN + 1); IN(int, in_which);
    in_w[WN] = 0;
    if (in_which) {
        const char *r = PrettyTmpName(in_w);
        int term = 0; for (int i = 0; i <= BUFSIZ; i++) if (r[i] == 0) term = 1;
        __CPROVER_assert(term, "C05 the pretty name is terminated inside its buffer");
    } else {
        char *r = PrettyNewName(in_w);
        __CPROVER_assert(strlen(r) <= strlen(in_w), "C05 the copied pretty name is no longer than the name it was made from");
    }
}
