/* Unit multpass_c: the pass driver of the C++ generator, print_schemas_separate, extracted from src/exp2cxx/multpass.c */
#include <stdio.h>
#include <stdlib.h>
#include <string.h>
#include <stdbool.h>
#include "verif.h"
#include "express/scope.h"   /* first inclusion must be the rewritten copy (union -> struct), see unit.json */
#include "classes.h"
/* ---- recording contract stubs ---- */
static struct Scope_ *g_schema; static int g_iter_pos;
static int g_types_progress, g_ents_progress, g_pass, g_leaves_unprocessed;
static int g_print_calls, g_print_suffix; static Schema g_print_schema; static void *g_print_col; static FILES *g_print_files;
void HASHlistinit_by_type(Hash_Table t, HashEntry *he, char type) { (void)t; (void)he; (void)type; g_iter_pos = 0; }   /* DICTdo_type_init */
void *DICTdo(DictionaryEntry *de) { (void)de; return g_iter_pos++ == 0 ? g_schema : 0; }
static void initializeMarks(Express e) { (void)e; g_schema->search_id = UNPROCESSED; }
void numberAttributes(Scope s) { (void)s; }
static void unsetObjs(Schema s) { (void)s; }
/* contract of the two checks: true iff something of that kind became printable in this pass; they put the schema back to
   UNPROCESSED when they had to skip something (modelled: never, for a one-pass schema) */
static bool checkTypes(Schema s) { (void)s; return g_pass == 0 && g_types_progress; }
static bool checkEnts(Schema s) { (void)s; bool r = g_pass == 0 && g_ents_progress; g_pass++; return r; }
void SCHEMAprint(Schema s, FILES *f, void *col, int suffix) { g_print_calls++; g_print_schema = s; g_print_files = f; g_print_col = col; g_print_suffix = suffix; }
void USEREFout(Schema s, Dictionary d, Linked_List l, char *t, FILE *f) { (void)s; (void)d; (void)l; (void)t; (void)f; }
static void addRenameTypedefs(Schema s, FILE *f) { (void)s; (void)f; }
static void addAggrTypedefs(Schema s, FILE *f) { (void)s; (void)f; }
static void addUseRefNames(Schema s, FILE *f) { (void)s; (void)f; }
void getMCPrint(Express e, FILE *a, FILE *b) { (void)e; (void)a; (void)b; }
static void cleanupMarks(Express e) { (void)e; }
#include "multpass_extract.inc"

/* C17: whatever a schema holds - types, entities or both - its files are written: SCHEMAprint runs for the schema in the pass
 * in which either check reports something printable (the scanner lists the schema's files in all of these cases) */
void h_print_schemas_separate(void)
{
    IN(int, in_types); IN(int, in_ents);
    static struct Scope_ model, schema; static struct Schema_ sch; static FILES files; static int filecount; static long col;
    FILE *fp = fopen("out", "w"); __CPROVER_assume(fp != 0);
    files.create = files.classes = files.initall = files.incall = fp;
    g_schema = &schema; schema.u.schema = &sch; schema.clientData = &filecount; filecount = 0;
    g_types_progress = in_types != 0; g_ents_progress = in_ents != 0; g_pass = 0; g_print_calls = 0;
    print_schemas_separate(&model, &col, &files);
    if (in_types || in_ents) {
        __CPROVER_assert(g_print_calls == 1 && g_print_schema == &schema, "C17 a schema with printable types or entities (or both) is printed: its files are written");
        __CPROVER_assert(g_print_suffix == 0 && g_print_files == &files && g_print_col == (void *)&col, "a schema that is complete after one pass is written without a file suffix, to the caller's files");
    } else
        __CPROVER_assert(g_print_calls == 0, "a schema with nothing printable is not printed");
}
