/* Unit stepfile_data_cc (CXX-FN): the two passes over the data section, STEPfile::ReadData1 / ReadData2, extracted from STEPfile.cc */
#define EXPDICT_H
#define _REGISTRY_H
#define private public
#define protected public
#include <iostream>
#include <fstream>
#include <limits>
#include "cxx/verif_stream_model.h"
#include "clstepcore/sdai.h"
#include "repo/expdict_iface.h"
class Registry;
#include "cleditor/STEPfile.h"
#include "clstepcore/read_func.h"
#undef private
#undef protected
#include <ctype.h>
#include <stdio.h>
#include <string.h>
#include <stdlib.h>
/* ---- recording contract stubs ---- */
#define NI 2
static SDAI_Application_instance *g_objs[NI]; static int g_creates, g_reads, g_skips, g_appends; static SDAI_Application_instance *g_app_obj[NI]; static stateEnum g_app_state[NI];
static ErrorDescriptor *g_oe;
static void eat_instance(istream &in) { for (int i = 0; i < 6; i++) { int c = in.get(); if (c < 0 || c == ';') break; } }
SDAI_Application_instance *STEPfile::CreateInstance(istream &in, ostream &) { SDAI_Application_instance *o = g_creates < NI ? g_objs[g_creates] : 0; g_creates++; eat_instance(in); return o; }
SDAI_Application_instance *STEPfile::ReadInstance(istream &in, ostream &, std::string &, bool) { SDAI_Application_instance *o = g_reads < NI ? g_objs[g_reads] : 0; g_reads++; eat_instance(in); return o; }
Severity SkipInstance(istream &in, std::string &) { g_skips++; eat_instance(in); return SEVERITY_NULL; }
Severity FindStartOfInstance(istream &in, std::string &) { for (int i = 0; i < 6; i++) { int c = in.peek(); if (c < 0 || c == '#') break; in.get(); } return SEVERITY_NULL; }
int FoundEndSecKywd(istream &in) { int c = in.peek(); return c < 0 || c == 'E'; }
void ReadTokenSeparator(istream &, std::string *) { }
static MgrNode *verif_Append(InstMgr *, SDAI_Application_instance *o, stateEnum s) { if (g_appends < NI) { g_app_obj[g_appends] = o; g_app_state[g_appends] = s; } g_appends++; return 0; }
static ErrorDescriptor &verif_obj_error(SDAI_Application_instance *) { return *g_oe; }
/* <string.h> in C++ mode declares strchr overloads that cbmc's C library does not provide: model with ISO semantics */
char *strchr(char *s, int c) { for (;; s++) { if (*s == (char)c) return s; if (*s == 0) return 0; } }
const char *strchr(const char *s, int c) { for (;; s++) { if (*s == (char)c) return s; if (*s == 0) return 0; } }
#include "stepfile_data_extract.inc"
/* message text is outside these obligations: the message builders of errordesc.cc are no-ops here */
ErrorDescriptor::ErrorDescriptor(Severity s, DebugLevel) : _severity(s) {}
ErrorDescriptor::~ErrorDescriptor() {}
void ErrorDescriptor::AppendToUserMsg(const char *) {} void ErrorDescriptor::AppendToUserMsg(const char) {}
void ErrorDescriptor::AppendToDetailMsg(const char *) {} void ErrorDescriptor::AppendToDetailMsg(const char) {}
#include "verif.h"

/* C16: reading a working-session file, pass 1 creates every instance that is not marked deleted and files it under the state its letter
 * stands for; pass 2 fills exactly those and skips the deleted ones; instances are taken in file order and nothing else is consumed */
extern "C" void h_ReadData_working()
{
    IN(int, in_n); IN(int, in_l0); IN(int, in_l1); IN(int, in_working);
    __CPROVER_assume(in_n >= 0 && in_n <= NI);
    int letters[NI] = { in_l0, in_l1 };
    int p = 0; g_stream_arbitrary = 0; int deleted = 0;
    for (int i = 0; i < NI; i++) {
        __CPROVER_assume(letters[i] == 'C' || letters[i] == 'I' || letters[i] == 'N' || letters[i] == 'D');
        if (i < in_n) { if (in_working) g_stream_script[p++] = (char)letters[i]; g_stream_script[p++] = '#'; g_stream_script[p++] = 'x'; g_stream_script[p++] = ';'; if (in_working && letters[i] == 'D') deleted++; }
        g_objs[i] = (SDAI_Application_instance *)malloc(sizeof(SDAI_Application_instance));
    }
    g_stream_len = p;
    STEPfile *f = (STEPfile *)malloc(sizeof(STEPfile));
    f->_error._userMsg._n = 0; f->_error._userMsg._m[0] = 0; f->_error._detailMsg._n = 0; f->_error._detailMsg._m[0] = 0; f->_error._severity = SEVERITY_NULL;
    f->_fileType = in_working ? WORKING_SESSION : VERSION_CURRENT; f->ENTITY_NAME_DELIM = '#'; f->_maxErrorCount = 100000;
    ErrorDescriptor oe; g_oe = &oe;
    /* pass 1 */
    { istream in; in._m_state = 0; in._m_have = 0; in._m_consumed = 0;
      g_creates = g_reads = g_skips = g_appends = 0;
      int cnt = f->ReadData1(in);
      __CPROVER_assert(g_creates == in_n - deleted && g_appends == in_n - deleted && cnt == in_n - deleted, "C16 pass 1 creates every instance that is not marked deleted, once, and adds it to the manager");
      __CPROVER_assert(g_skips == deleted, "C16 exactly the instances marked deleted are skipped");
      __CPROVER_assert(in._m_consumed == (unsigned long)p, "pass 1 consumes the data section instance by instance, nothing more");
      int j = 0;
      for (int i = 0; i < NI; i++) if (i < in_n && !(in_working && letters[i] == 'D') && j < NI) {
          stateEnum want = !in_working ? newSE : letters[i] == 'C' ? completeSE : letters[i] == 'I' ? incompleteSE : newSE;
          __CPROVER_assert(g_app_obj[j] == g_objs[j] && g_app_state[j] == want, "C16 every instance enters the manager in file order under the editing state its letter stands for (new for an exchange file)");
          j++;
      } }
    /* pass 2 */
    { istream in; in._m_state = 0; in._m_have = 0; in._m_consumed = 0;
      g_creates = g_reads = g_skips = g_appends = 0;
      f->ReadData2(in, true);
      __CPROVER_assert(g_reads == in_n - deleted && g_skips == deleted && g_creates == 0, "C16 pass 2 reads the values of exactly the instances that are not marked deleted");
      __CPROVER_assert(in._m_consumed == (unsigned long)p, "pass 2 consumes the data section instance by instance, nothing more"); }
}
