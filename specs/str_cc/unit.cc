/* Unit str_cc (CXX-FN): delimiter check and string-literal scanner extracted from Str.cc */
#include <iostream>
#include <sstream>
#include "cxx/verif_stream_model.h"
#include "str_extract.inc"
/* <string.h> in C++ mode declares strchr overloads that cbmc's C library does not provide: model with ISO semantics */
const char *strchr(const char *s, int c) { for (;; s++) { if (*s == (char)c) return s; if (*s == 0) return 0; } }
#include "src/clutils/errordesc.cc"
#include "verif.h"

#ifdef VERIF_TIER_THOROUGH
#define SN 9
#else
#define SN 7
#endif
static int is_ws(int c) { return c == ' ' || c == '\t' || c == '\n' || c == '\r' || c == '\f' || c == '\v'; }
static void script(const char *s, unsigned len) { g_stream_arbitrary = 0; for (int i = 0; i < SN; i++) g_stream_script[i] = s[i]; g_stream_len = len; }

/* C09: after a value, white space is skipped; a delimiter is left unread; anything else is an error on the attribute and
 * the reader resynchronises AT the next delimiter (not past it), or reports an input error if there is none */
extern "C" void h_CheckRemainingInput()
{
    IN_ARR(char, in_s, SN); IN(unsigned, in_len); IN(int, in_prev);
    __CPROVER_assume(in_len <= SN);
    for (int i = 0; i < SN; i++) __CPROVER_assume(in_s[i] != 0);
    __CPROVER_assume(in_prev >= SEVERITY_BUG && in_prev <= SEVERITY_NULL);
    script(in_s, in_len);
    istream in; in._m_state = 0; in._m_have = 0; in._m_consumed = 0;
    ErrorDescriptor err; err.severity((Severity)in_prev);
    Severity s = CheckRemainingInput(in, &err, "t", ",)");
    int i = 0; while (i < (int)in_len && is_ws(in_s[i])) i++;
    int d = i; while (d < (int)in_len && in_s[d] != ',' && in_s[d] != ')') d++;       /* next delimiter at or after i */
    __CPROVER_assert(s == err.severity() && s <= (Severity)in_prev, "the severity returned is the descriptor's and never better than before");
    if (i == (int)in_len) {
        __CPROVER_assert(s == (Severity)in_prev, "C09 only white space up to the end of the input is not an error");
    } else if (d == i) {
        __CPROVER_assert(s == (Severity)in_prev && in._m_consumed == (unsigned long)i, "C09 a delimiter after the value is no error and is left unread");
    } else if (d < (int)in_len) {
        __CPROVER_assert(s <= SEVERITY_WARNING, "C09/C03 garbage between a value and the next delimiter raises an error on the attribute");
        __CPROVER_assert(in._m_consumed == (unsigned long)d, "C03 recovery stops AT the next delimiter, which is left unread (the neighbouring attribute is not swallowed)");
    } else {
        __CPROVER_assert(s <= SEVERITY_INPUT_ERROR, "C03 garbage with no delimiter up to the end of the input is an input error");
    }
}

/* C09: a string literal is read up to and including its closing quote; doubled quotes stay inside; an unterminated
 * literal is an input error; nothing is consumed when no literal starts here */
extern "C" void h_GetLiteralStr()
{
    IN_ARR(char, in_s, SN); IN(unsigned, in_len);
    __CPROVER_assume(in_len <= SN);
    for (int i = 0; i < SN; i++) __CPROVER_assume(in_s[i] != 0);
    script(in_s, in_len);
    istream in; in._m_state = 0; in._m_have = 0; in._m_consumed = 0;
    ErrorDescriptor err;
    std::string r = GetLiteralStr(in, &err);
    int n = (int)in_len, i = 0; while (i < n && is_ws(in_s[i])) i++;
    if (i == n || in_s[i] != '\'') {
        __CPROVER_assert(r.size() == 0 && in._m_consumed == (unsigned long)i && err.severity() == SEVERITY_NULL, "C09 where no string literal starts nothing is consumed and nothing is returned");
    } else {
        /* spec: find the closing quote: the first quote after the opening one that is neither the first of a doubled pair nor the
         * character of an \S\ directive (the three characters before it, inside the literal, are \S\); any other reverse solidus -
         * a doubled one, the end of an \X2\...\X0\ directive - does not protect the quote that follows it */
        int pos = i + 1, close = -1;
        for (int k = 0; k < SN; k++) { if (close < 0 && pos < n) { if (in_s[pos] == '\'') {
              if (pos - i >= 3 && in_s[pos - 3] == '\\' && in_s[pos - 2] == 'S' && in_s[pos - 1] == '\\') pos++;
              else if (pos + 1 < n && in_s[pos + 1] == '\'') pos += 2; else close = pos; } else pos++; } }
        if (close >= 0) {
            __CPROVER_assert(err.severity() == SEVERITY_NULL && in._m_consumed == (unsigned long)(close + 1), "C09 a string literal is consumed up to and including its closing quote, and no further");
            int ok = (int)r.size() == close + 1 - i;
            for (int k = 0; k < SN; k++) if (i + k <= close && r[k] != in_s[i + k]) ok = 0;
            __CPROVER_assert(ok, "C09/C01 the string value returned is exactly the literal's text - quotes, doubled quotes, reverse solidi and control directives included");
        } else {
            __CPROVER_assert(err.severity() <= SEVERITY_INPUT_ERROR, "C09/C03 an unterminated string literal is an input error");
        }
    }
}
