/* Unit gen_files_c (C extraction): the two places where exp2cxx creates a per-type / per-entity file pair (C17: the generator writes
 * exactly the files the helper shared with the scanner names) */
#include <stdio.h>
#include <stdlib.h>
#include <string.h>
#include <stdarg.h>
#include <stdbool.h>
#include <assert.h>
#include "verif.h"
#include "express/scope.h"
#include "classes.h"
#include "class_strings.h"
#include "genCxxFilenames.h"
static int verif_fprintf(FILE *f, const char *fmt, ...) { (void)fmt; __CPROVER_assert(f != 0, "text is printed to an open file"); return 0; }
#undef fprintf
#define fprintf verif_fprintf
int multiple_inheritance;
static char g_hn[4] = "h", g_in[4] = "i", g_nm[4] = "n";
static int g_tnames, g_enames;
filenames_t getTypeFilenames(Type t) { (void)t; g_tnames++; filenames_t f = { g_in, g_hn }; return f; }
filenames_t getEntityFilenames(Entity e) { (void)e; g_enames++; filenames_t f = { g_in, g_hn }; return f; }
static int g_creates; static const char *g_created[4]; static FILE g_files[4];
FILE *FILEcreate(const char *name) { if (g_creates < 4) g_created[g_creates] = name; FILE *f = &g_files[g_creates < 4 ? g_creates : 3]; g_creates++; return f; }
static int g_closes; void FILEclose(FILE *f) { (void)f; g_closes++; }
static int g_mkdir; static const char *g_dir;
static int mkDirIfNone(const char *p) { g_mkdir++; g_dir = p; return 0; }
const char *TYPEget_ctype(const Type t) { (void)t; return g_nm; }
const char *ENTITYget_classname(Entity e) { (void)e; return g_nm; }
static FILE *g_h_hdr, *g_cc_hdr, *g_cc_impl;
void TYPEPrint_h(const Type t, FILE *f) { (void)t; g_h_hdr = f; }
void TYPEPrint_cc(const Type t, const filenames_t *n, FILE *h, FILE *i, Schema s) { (void)t; (void)n; (void)s; g_cc_hdr = h; g_cc_impl = i; }
void ENTITYPrint_h(const Entity e, FILE *h, Linked_List l, Schema s) { (void)e; (void)l; (void)s; g_h_hdr = h; }
void ENTITYPrint_cc(const Entity e, FILE *c, FILE *h, FILE *i, Linked_List l, Schema s, bool x) { (void)e; (void)c; (void)l; (void)s; (void)x; g_cc_hdr = h; g_cc_impl = i; }
enum CollectType { ALL, ALL_BUT_FIRST, FIRST_ONLY };
static void collectAttributes(Linked_List l, const Entity e, enum CollectType c) { (void)l; (void)e; (void)c; }
static bool listContainsVar(Linked_List l, Variable v) { (void)l; (void)v; return nondet_int() != 0; }
static struct Linked_List_ g_lists[3]; static struct Link_ g_marks[3]; static int g_nlists;
Linked_List LISTcreate(void) { Linked_List l = &g_lists[g_nlists % 3]; l->mark = &g_marks[g_nlists % 3]; l->mark->next = l->mark->prev = l->mark; g_nlists++; return l; }
struct freelist_head LIST_fl;
void ALLOC_destroy(struct freelist_head *h, Freelist *x) { (void)h; (void)x; }
void *LISTadd_first(Linked_List l, void *i) { (void)l; return i; }
#include "typeprint_extract.inc"
#include "entityprint_extract.inc"
#undef fprintf

void h_per_item_files(void)
{
    IN(int, in_which); IN(int, in_mi);
    static struct Scope_ item, schema; static char nm[2] = "e"; static FILES files; static FILE all[8];
    item.symbol.name = nm; multiple_inheritance = in_mi != 0;
    files.inc = &all[0]; files.init = &all[1]; files.create = &all[2]; files.unity.entity.hdr = &all[3]; files.unity.entity.impl = &all[4]; files.unity.type.hdr = &all[5]; files.unity.type.impl = &all[6];
    g_creates = g_closes = g_mkdir = g_tnames = g_enames = 0;
    if (in_which) TYPEPrint(&item, &files, &schema); else ENTITYPrint(&item, &files, &schema, false);
    __CPROVER_assert((in_which ? g_tnames : g_enames) == 1 && (in_which ? g_enames : g_tnames) == 0, "C17 the names come from the helper that the scanner uses for the same kind of item");
    __CPROVER_assert(g_creates == 2 && ((g_created[0] == g_hn && g_created[1] == g_in) || (g_created[0] == g_in && g_created[1] == g_hn)),
                     "C17 exactly the two files the shared helper names are created - the header and the implementation, nothing else");
    __CPROVER_assert(g_mkdir == 1 && !strcmp(g_dir, in_which ? "type" : "entity"), "C17 the directory created is the one the helper's names start with");
    __CPROVER_assert(g_closes == 2 && g_h_hdr == g_cc_hdr && g_h_hdr != g_cc_impl, "both files are written to and closed");
}
