/* Unit gen_types_c: src/exp2cxx/classes_type.c compiled unmodified (Route C) */
#include <stdio.h>
#include <stdlib.h>
#include <string.h>
#include <stdarg.h>
#include "verif.h"
/* ---- ghost: record of fprintf calls ---- */
int g_pf_calls; const char *g_pf_last_fmt; long g_pf_int_args[4]; int g_pf_has_d;
static int verif_fprintf(FILE *f, const char *fmt, ...);
#define fprintf verif_fprintf
/* strncpy model (ISO C, assumed): destination must hold n bytes; the source string (or its first n bytes) is
   copied; the zero padding of the remainder is not modelled (never read by the code under contract) */
static char *verif_strncpy(char *d, const char *s, size_t n)
{
    __CPROVER_assert(__CPROVER_w_ok(d, n), "strncpy destination holds n bytes");
    size_t i = 0;
    while (i < n && i < 16 && s[i]) { d[i] = s[i]; i++; }
    if (i < n) d[i] = 0;
    return d;
}
#define strncpy verif_strncpy
#include "src/exp2cxx/classes_type.c"
#undef fprintf
#undef strncpy
static int verif_fprintf(FILE *f, const char *fmt, ...) { (void)f; g_pf_calls++; g_pf_last_fmt = fmt; return 0; }
#include "harnesses.c"
