/* Unit gen_types_c: src/exp2cxx/classes_type.c compiled unmodified (Route C) */
#include <stdio.h>
#include <stdlib.h>
#include <string.h>
#include <stdarg.h>
#include "verif.h"
#include "express/scope.h"   /* first inclusion must be the rewritten copy (union -> struct), see unit.json */
/* ---- ghost: record of fprintf calls ---- */
int g_pf_calls; const char *g_pf_last_fmt; long g_pf_int_args[4]; int g_pf_has_d;
static int verif_fprintf(FILE *f, const char *fmt, ...);
#define fprintf verif_fprintf
/* strncpy model (ISO C, assumed): destination must hold n bytes; the source string (or its first n bytes) is
   copied; the zero padding of the remainder is not modelled (never read by the code under contract) */
static char *verif_strncpy(char *d, const char *s, size_t n)
{
    __CPROVER_assert(__CPROVER_w_ok(d, n), "strncpy destination holds n bytes");
    size_t i = 0;
    while (i < n && i < 16 && s[i]) { d[i] = s[i]; i++; }
    if (i < n) d[i] = 0;
    return d;
}
#define strncpy verif_strncpy
#include "src/exp2cxx/classes_type.c"
#undef fprintf
#undef strncpy
static int contains(const char *h, const char *n)
{
    for (int i = 0; i < 120 && h[i]; i++) { int j = 0; while (j < 40 && n[j] && h[i + j] == n[j]) j++; if (!n[j]) return 1; }
    return 0;
}
/* records, for a format that contains the conversion "( %d )" of SetBoundN, the integer it is given */
int g_bound_d_calls; int g_bound_d_value; int g_funcall_calls; int g_accessor_calls;
static int verif_fprintf(FILE *f, const char *fmt, ...)
{
    va_list ap; (void)f; g_pf_calls++; g_pf_last_fmt = fmt;
    va_start(ap, fmt);
    if (contains(fmt, "SetBound%d( %d )")) { (void)va_arg(ap, const char *); (void)va_arg(ap, int); g_bound_d_value = va_arg(ap, int); g_bound_d_calls++; }
    else if (contains(fmt, "FromExpressFuncall")) g_funcall_calls++;
    else if (contains(fmt, "FromMemberAccessor")) g_accessor_calls++;
    va_end(ap);
    return 0;
}
#include "harnesses.c"
