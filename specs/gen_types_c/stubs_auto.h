int isAggregateType(const Type t) { (void)t; return g_is_aggr; }
Type TYPEget_ancestor(Type t) { (void)t; return g_ancestor; }
filenames_t getTypeFilenames(Type t) { filenames_t f; (void)t; f.header = "type/nm.h"; f.impl = "type/nm.cc"; return f; }
FILE *FILEcreate(const char *fn) { if (g_files_created < 4) g_created[g_files_created] = fn; g_files_created++; return &g_fobj; }
int stat(const char *p, struct stat *s) { (void)p; (void)s; return 0 - (nondet_int() & 1); }
int mkdir(const char *p, mode_t m) { (void)p; (void)m; return 0; }
const char *TypeDescriptorName(Type t) { (void)t; return s_name; }
