/* C17 generator side: TYPEprint_descriptions creates type/<name>.h/.cc exactly for non-renamed enumerations
 * (selects get theirs from TYPEselect_print, unit selects_c); C12: AGGRprint_bound */
#include "../c17_spec.h"
int nondet_int(void);

/* ---- stubs for externals of classes_type.c (name helpers return fixed short strings) ---- */
static char s_name[8] = "nm";
int g_is_aggr;
Type g_ancestor;
int g_files_created; const char *g_created[4];
static FILE g_fobj;
#include "stubs_auto.h"
void h_print_descriptions(void)
{
    IN(int, in_kind); IN(int, in_renamed);
    static struct Scope_ ts, headt, schema, supers; static struct TypeHead_ tt; static struct TypeBody_ tb; static FILES files; static struct Schema_ sch;
    __CPROVER_assume(c17_in_domain(in_kind) && in_kind != select_);   /* selects: TYPEselect_print */
    /* aggregate kinds are left out of this harness: TYPEget_RefTypeVarNm recurses over the element type and cbmc does not
       finish within the time limit; that they create no files is not decided here */
    __CPROVER_assume(!(in_kind == aggregate_ || in_kind == array_ || in_kind == bag_ || in_kind == set_ || in_kind == list_));
    ts.u.type = &tt; tt.body = &tb; tt.head = in_renamed ? &headt : 0; tb.type = (enum type_enum)in_kind;
    ts.symbol.name = s_name; headt.symbol.name = s_name; headt.superscope = &supers; supers.symbol.name = s_name; schema.symbol.name = s_name; schema.u.schema = &sch;
    ts.superscope = &supers;
    /* a rename has an ancestor (transitive head), a non-rename has none */
    g_ancestor = in_renamed ? &headt : 0;
    g_is_aggr = in_kind == aggregate_ || in_kind == array_ || in_kind == bag_ || in_kind == set_ || in_kind == list_;
    if (g_is_aggr) { static struct Scope_ baset; static struct TypeHead_ bh; static struct TypeBody_ bb; baset.u.type = &bh; bh.body = &bb; bb.type = integer_; baset.symbol.name = s_name; baset.superscope = &supers; tb.base = &baset;
                     static struct Expression_ lo, hi; tb.lower = 0; tb.upper = 0; }
    files.inc = files.lib = files.init = files.create = files.unity.type.hdr = files.unity.type.impl = &g_fobj;
    g_files_created = 0;
    TYPEprint_descriptions(&ts, &files, &schema);
    if (c17_has_own_files(in_kind, in_renamed != 0))
        __CPROVER_assert(g_files_created == 2 && g_created[0] != g_created[1], "C17 the generator creates the header and the implementation file of a non-renamed enumeration exactly once");
    else
        __CPROVER_assert(g_files_created == 0, "C17 the generator creates no type/ files for simple types, aggregates and renamed types");
}
