/* C12: no generated file contains a number that is not a function of the schema text:
 * AGGRprint_bound may print an integer only for a bound that IS an integer literal */
int nondet_int(void);
char *EXPRto_string(Expression e) { (void)e; static char s[4] = "f()"; char *r = malloc(4); r[0] = 'f'; r[1] = 0; return r; }
static struct Scope_ t_kind; static struct TypeHead_ th; static struct TypeBody_ tb;
void h_AGGRprint_bound(void)
{
    IN(int, in_kind); IN(int, in_resolved); IN(int, in_payload); IN(int, in_is_funcall_type);
    static struct Expression_ bound, op2; static FILE fa, fb; static char nm[2] = "n";
    /* expression kinds a resolved aggregate bound can have: integer literal, identifier/attribute/constant reference, function call, operator expression */
    __CPROVER_assume(in_kind == integer_ || in_kind == identifier_ || in_kind == attribute_ || in_kind == funcall_ || in_kind == op_ || in_kind == entity_);
    t_kind.u.type = &th; th.body = &tb; tb.type = (enum type_enum)in_kind;
    bound.type = (in_kind == funcall_) ? Type_Funcall : &t_kind;
    bound.symbol.resolved = in_resolved != 0; bound.symbol.name = nm;
    bound.u.integer = in_payload;            /* for a literal: its value; otherwise whatever shares the union (pointer bits) */
    bound.e.op2 = &op2; op2.symbol.name = nm;
    g_bound_d_calls = g_funcall_calls = g_accessor_calls = 0;
    __CPROVER_assume(Type_Funcall != &t_kind);
    AGGRprint_bound(&fa, &fb, "v", "a", "c", &bound, 1);
    if (g_bound_d_calls)
        __CPROVER_assert(in_kind == integer_ && g_bound_d_value == in_payload, "C12 a number is printed as an aggregate bound only when the bound is an integer literal (no pointer bits or union garbage reach the generated code)");
    __CPROVER_assert(g_bound_d_calls + g_funcall_calls + g_accessor_calls == 1, "C12 every aggregate bound is emitted exactly once, as a literal, an EXPRESS text or a member accessor");
}
