/* C04: an attribute that re-declares (without SELF\...) a name already inherited through ANY ancestor of a supertype
 * is rejected with the ERROR-class diagnostic OVERLOADED_ATTR; C20: the diagnostic names that attribute and supertype */
static struct Linked_List_ attrs, supers, noattrs; static struct Link_ am, a1, sm, s1, nm;
static struct Scope_ e, supr, t_id; static struct Entity_ ee, se; static struct TypeHead_ th; static struct TypeBody_ tb;
static struct Variable_ attr, inh; static struct Expression_ aname; static char n_attr[2] = "x", n_e[2] = "e", n_s[2] = "s";

void h_overloaded_attr(void)
{
    IN(int, in_inherited);
    /* entity e: one plain attribute "x"; one supertype "s" whose LOCAL attribute list is empty */
    attrs.mark = &am; am.next = &a1; am.prev = &a1; a1.next = &am; a1.prev = &am; a1.data = &attr;
    supers.mark = &sm; sm.next = &s1; sm.prev = &s1; s1.next = &sm; s1.prev = &sm; s1.data = &supr;
    noattrs.mark = &nm; nm.next = &nm; nm.prev = &nm;
    e.u.entity = &ee; ee.attributes = &attrs; ee.supertypes = &supers; e.symbol.name = n_e; e.where = 0; e.symbol_table = 0;
    supr.u.entity = &se; se.attributes = &noattrs; se.supertypes = 0; supr.symbol.name = n_s;
    t_id.u.type = &th; th.body = &tb; tb.type = identifier_;
    attr.name = &aname; aname.type = &t_id; aname.symbol.name = n_attr; aname.symbol.resolved = RESOLVED; attr.initializer = 0;
    /* ghost: is "x" an attribute of s or of one of s's ancestors? */
    g_inherited = in_inherited ? &inh : 0;
    g_rep_calls = g_gna_calls = 0; print_objects_while_running = 0;
    ENTITYresolve_expressions(&e);
    if (in_inherited) {
        __CPROVER_assert(g_rep_calls >= 1 && g_rep_errnum == OVERLOADED_ATTR, "C04 an attribute that re-declares an inherited attribute (own or via any ancestor of a supertype) is reported as OVERLOADED_ATTR");
        __CPROVER_assert(g_rep_sym == &aname.symbol && g_rep_a1 == (const void *)n_attr && g_rep_a2 == (const void *)n_s, "C20 the diagnostic is attributed to the attribute's symbol and quotes the attribute and the supertype");
        __CPROVER_assert((aname.symbol.resolved & RESOLVE_FAILED) && (e.symbol.resolved & RESOLVE_FAILED), "C04 the offending attribute and the entity are marked as failed");
    } else
        __CPROVER_assert(g_rep_calls == 0, "C04 a fresh attribute name is not reported");
    __CPROVER_assert(g_gna_calls == 0 || (g_gna_entity == &supr && g_gna_name == n_attr), "the inherited-attribute look-up is asked about the supertype and the attribute's name");
}
