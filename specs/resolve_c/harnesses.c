/* C04: an attribute that re-declares (without SELF\...) a name already inherited through ANY ancestor of a supertype
 * is rejected with the ERROR-class diagnostic OVERLOADED_ATTR; C20: the diagnostic names that attribute and supertype */
static struct Linked_List_ attrs, supers, noattrs; static struct Link_ am, a1, sm, s1, nm;
static struct Scope_ e, supr, t_id; static struct Entity_ ee, se; static struct TypeHead_ th; static struct TypeBody_ tb;
static struct Variable_ attr, inh; static struct Expression_ aname; static char n_attr[2] = "x", n_e[2] = "e", n_s[2] = "s";

void h_overloaded_attr(void)
{
    IN(int, in_inherited);
    /* entity e: one plain attribute "x"; one supertype "s" whose LOCAL attribute list is empty */
    attrs.mark = &am; am.next = &a1; am.prev = &a1; a1.next = &am; a1.prev = &am; a1.data = &attr;
    supers.mark = &sm; sm.next = &s1; sm.prev = &s1; s1.next = &sm; s1.prev = &sm; s1.data = &supr;
    noattrs.mark = &nm; nm.next = &nm; nm.prev = &nm;
    e.u.entity = &ee; ee.attributes = &attrs; ee.supertypes = &supers; e.symbol.name = n_e; e.where = 0; e.symbol_table = 0;
    supr.u.entity = &se; se.attributes = &noattrs; se.supertypes = 0; supr.symbol.name = n_s;
    t_id.u.type = &th; th.body = &tb; tb.type = identifier_;
    attr.name = &aname; aname.type = &t_id; aname.symbol.name = n_attr; aname.symbol.resolved = RESOLVED; attr.initializer = 0;
    /* ghost: is "x" an attribute of s or of one of s's ancestors? */
    g_inherited = in_inherited ? &inh : 0;
    g_rep_calls = g_gna_calls = 0; print_objects_while_running = 0;
    ENTITYresolve_expressions(&e);
    if (in_inherited) {
        __CPROVER_assert(g_rep_calls >= 1 && g_rep_errnum == OVERLOADED_ATTR, "C04 an attribute that re-declares an inherited attribute (own or via any ancestor of a supertype) is reported as OVERLOADED_ATTR");
        __CPROVER_assert(g_rep_sym == &aname.symbol && g_rep_a1 == (const void *)n_attr && g_rep_a2 == (const void *)n_s, "C20 the diagnostic is attributed to the attribute's symbol and quotes the attribute and the supertype");
        __CPROVER_assert((aname.symbol.resolved & RESOLVE_FAILED) && (e.symbol.resolved & RESOLVE_FAILED), "C04 the offending attribute and the entity are marked as failed");
    } else
        __CPROVER_assert(g_rep_calls == 0, "C04 a fresh attribute name is not reported");
    __CPROVER_assert(g_gna_calls == 0 || (g_gna_entity == &supr && g_gna_name == n_attr), "the inherited-attribute look-up is asked about the supertype and the attribute's name");
}

/* C04: a subtype that does not list its supertype is rejected (MISSING_SUPERTYPE) */
void h_missing_supertype(void)
{
    IN(int, in_lists);   /* 0: sub lists nobody, 1: sub lists ent, 2: sub lists another entity */
    static struct Scope_ ent, sub, other; static struct Entity_ en, su, ot;
    static struct Linked_List_ subs, sups; static struct Link_ bm, b1, pm, p1; static char n1[2] = "p", n2[2] = "c";
    __CPROVER_assume(in_lists >= 0 && in_lists <= 2);
    ent.u.entity = &en; sub.u.entity = &su; other.u.entity = &ot; ent.symbol.name = n1; sub.symbol.name = n2; sub.symbol.resolved = RESOLVED;
    subs.mark = &bm; bm.next = &b1; bm.prev = &b1; b1.next = &bm; b1.prev = &bm; b1.data = &sub; en.subtypes = &subs;
    sups.mark = &pm; if (in_lists) { pm.next = &p1; pm.prev = &p1; p1.next = &pm; p1.prev = &pm; p1.data = in_lists == 1 ? &ent : &other; } else { pm.next = &pm; pm.prev = &pm; }
    su.supertypes = &sups;
    g_rep_calls = 0;
    ENTITYcheck_missing_supertypes(&ent);
    if (in_lists == 1) __CPROVER_assert(g_rep_calls == 0 && !(sub.symbol.resolved & RESOLVE_FAILED), "a subtype that lists its supertype is accepted");
    else {
        __CPROVER_assert(g_rep_calls == 1 && g_rep_errnum == MISSING_SUPERTYPE && (sub.symbol.resolved & RESOLVE_FAILED), "C04 a subtype that does not list its supertype is rejected with MISSING_SUPERTYPE and marked failed");
        __CPROVER_assert(g_rep_sym == &sub.symbol && g_rep_a1 == (const void *)n1 && g_rep_a2 == (const void *)n2, "C20 the diagnostic is attributed to the subtype and quotes the supertype and the subtype");
    }
}

/* C04: an entity reachable from itself through subtype links is rejected (SUBSUPER_LOOP) */
static void check_cycle(int n0, int n1, int n2)
{
    static struct Scope_ en[3]; static struct Entity_ ee3[3]; static struct Linked_List_ sl[3]; static struct Link_ sm3[3], s13[3]; static char nm[3][2] = { "a", "b", "c" };
    int nx[3] = { n0, n1, n2 };
    for (int k = 0; k < 3; k++) {
        en[k].u.entity = &ee3[k]; en[k].symbol.name = nm[k]; en[k].search_id = 0;
        sl[k].mark = &sm3[k];
        if (nx[k] < 3) { sm3[k].next = &s13[k]; sm3[k].prev = &s13[k]; s13[k].next = &sm3[k]; s13[k].prev = &sm3[k]; s13[k].data = &en[nx[k]]; }
        else { sm3[k].next = &sm3[k]; sm3[k].prev = &sm3[k]; }
        ee3[k].subtypes = &sl[k];
    }
    __SCOPE_search_id = 5;
    /* spec: is a reachable from a (out-degree <= 1, so follow the chain at most 3 steps) */
    int cur = nx[0], cyc = 0;
    for (int step = 0; step < 3; step++) { if (cur == 0) cyc = 1; if (cur >= 3) break; cur = nx[cur]; }
    g_rep_calls = 0;
    ENTITYcheck_subsuper_cyclicity(&en[0]);
    if (cyc) __CPROVER_assert(g_rep_calls >= 1, "C04 an entity that is (transitively) a subtype of itself is rejected with an ERROR-class diagnostic");
    else __CPROVER_assert(g_rep_calls == 0, "an acyclic subtype chain is accepted");
}
/* all 64 link graphs over 3 entities with at most one subtype each, enumerated concretely (symbolic links make cbmc
   explore every pointer target at every recursion level) */
void h_subsuper_cycle(void)
{
    for (int a = 0; a < 4; a++) for (int b = 0; b < 4; b++) for (int c = 0; c < 4; c++) check_cycle(a, b, c);
}

/* C04: a select type reachable from itself through select items is rejected (SELECT_LOOP), whatever other items the
 * selects share.  Graphs: selects B (start), S, C with two item slots each, every slot one of {C, B, S, a non-select item} */
static struct Scope_ st[3], leaf; static struct TypeHead_ sth[3], lth; static struct TypeBody_ stb[3], ltb;
static struct Linked_List_ sll[3]; static struct Link_ smk[3], sl0[3], sl1[3]; static char snm[3][2] = { "c", "b", "s" };
static void check_select_cycle(int b0, int b1, int s0, int s1, int c0, int c1)
{
    int slot[3][2] = { { c0, c1 }, { b0, b1 }, { s0, s1 } };       /* node 0 = C, 1 = B, 2 = S; slot value 3 = non-select item */
    leaf.u.type = &lth; lth.body = &ltb; ltb.type = integer_; leaf.symbol.name = snm[0];
    for (int k = 0; k < 3; k++) {
        st[k].u.type = &sth[k]; sth[k].body = &stb[k]; stb[k].type = select_; stb[k].list = &sll[k]; st[k].symbol.name = snm[k]; st[k].search_id = 0;
        sll[k].mark = &smk[k]; smk[k].next = &sl0[k]; sl0[k].prev = &smk[k]; sl0[k].next = &sl1[k]; sl1[k].prev = &sl0[k]; sl1[k].next = &smk[k]; smk[k].prev = &sl1[k];
        sl0[k].data = slot[k][0] < 3 ? &st[slot[k][0]] : &leaf; sl1[k].data = slot[k][1] < 3 ? &st[slot[k][1]] : &leaf;
    }
    /* spec: B (node 1) reachable from B in >= 1 step */
    int reach[3] = { 0, 0, 0 };
    for (int j = 0; j < 2; j++) if (slot[1][j] < 3) reach[slot[1][j]] = 1;
    for (int round = 0; round < 3; round++) for (int k = 0; k < 3; k++) if (reach[k]) for (int j = 0; j < 2; j++) if (slot[k][j] < 3) reach[slot[k][j]] = 1;
    __SCOPE_search_id = 5; g_rep_calls = 0;
    TYPEcheck_select_cyclicity(&st[1]);
    if (reach[1]) __CPROVER_assert(g_rep_calls >= 1, "C04 a select type that (transitively) selects itself is rejected with an ERROR-class diagnostic, whatever other items the selects share");
    else __CPROVER_assert(g_rep_calls == 0, "an acyclic select is accepted");
}
void h_select_cycle(void)
{
    /* C has no select items (both slots non-select) or one: enumerate B and S fully, C in two shapes */
    for (int b0 = 0; b0 < 4; b0++) for (int b1 = 0; b1 < 4; b1++) for (int s0 = 0; s0 < 4; s0++) for (int s1 = 0; s1 < 4; s1++) {
        check_select_cycle(b0, b1, s0, s1, 3, 3);
    }
}

/* C04: same for subtype graphs with two subtypes per entity (entities A (start), S, C; each slot one of {C, A, S, none}) */
static void check_cycle2(int a0, int a1, int s0, int s1)
{
    static struct Scope_ en[3]; static struct Entity_ ee[3]; static struct Linked_List_ sl[3]; static struct Link_ mk[3], l0[3], l1[3]; static char nm[3][2] = { "c", "a", "s" };
    int slot[3][2] = { { 3, 3 }, { a0, a1 }, { s0, s1 } };      /* node 0 = C (no subtypes), 1 = A, 2 = S */
    for (int k = 0; k < 3; k++) {
        en[k].u.entity = &ee[k]; en[k].symbol.name = nm[k]; en[k].search_id = 0; ee[k].subtypes = &sl[k]; sl[k].mark = &mk[k];
        /* list of the slots that are not "none", in slot order */
        struct Link_ *last = &mk[k];
        if (slot[k][0] < 3) { last->next = &l0[k]; l0[k].prev = last; l0[k].data = &en[slot[k][0]]; last = &l0[k]; }
        if (slot[k][1] < 3) { last->next = &l1[k]; l1[k].prev = last; l1[k].data = &en[slot[k][1]]; last = &l1[k]; }
        last->next = &mk[k]; mk[k].prev = last;
    }
    int reach[3] = { 0, 0, 0 };
    for (int j = 0; j < 2; j++) if (slot[1][j] < 3) reach[slot[1][j]] = 1;
    for (int round = 0; round < 3; round++) for (int k = 0; k < 3; k++) if (reach[k]) for (int j = 0; j < 2; j++) if (slot[k][j] < 3) reach[slot[k][j]] = 1;
    __SCOPE_search_id = 5; g_rep_calls = 0;
    ENTITYcheck_subsuper_cyclicity(&en[1]);
    if (reach[1]) __CPROVER_assert(g_rep_calls >= 1, "C04 an entity that is (transitively) a subtype of itself is rejected with an ERROR-class diagnostic, whatever other subtypes the entities share");
    else __CPROVER_assert(g_rep_calls == 0, "an acyclic subtype graph is accepted");
}
void h_subsuper_cycle2(void)
{
    for (int a0 = 0; a0 < 4; a0++) for (int a1 = 0; a1 < 4; a1++) for (int s0 = 0; s0 < 4; s0++) for (int s1 = 0; s1 < 4; s1++) check_cycle2(a0, a1, s0, s1);
}

/* C04 (bad INVERSE): `INVERSE v : [SET OF] ent FOR name` is rejected with an ERROR-class diagnostic unless `ent` is an entity
 * and `name` is an attribute of it (declared or inherited); an attribute of one of ent's subtypes does not count.
 * C20: the diagnostic names the attribute and the entity. */
void h_inverse(void)
{
    IN(int, in_shape);      /* 0: ent, 1: SET OF ent, 2: a non-entity type */
    IN(int, in_where);      /* ghost: 1 = name is an attribute of ent or an ancestor, 2 = only of a subtype, 0 = nowhere */
    static struct Scope_ t_ent, t_agg, t_int, ent; static struct TypeHead_ h_ent, h_agg, h_int; static struct TypeBody_ b_ent, b_agg, b_int;
    static struct Variable_ v; static struct Expression_ vname; static struct Symbol_ isym; static char n_inv[5] = "item", n_ent[6] = "owner", n_v[7] = "owners";
    __CPROVER_assume(in_shape >= 0 && in_shape <= 2 && in_where >= 0 && in_where <= 2);
    ent.symbol.name = n_ent;
    t_ent.u.type = &h_ent; h_ent.body = &b_ent; b_ent.type = entity_; b_ent.entity = &ent; b_ent.base = 0; t_ent.symbol.resolved = RESOLVED;
    t_agg.u.type = &h_agg; h_agg.body = &b_agg; b_agg.type = set_; b_agg.base = &t_ent; t_agg.symbol.resolved = RESOLVED;
    t_int.u.type = &h_int; h_int.body = &b_int; b_int.type = integer_; b_int.base = 0; t_int.symbol.resolved = RESOLVED;
    v.name = &vname; vname.symbol.name = n_v; vname.symbol.resolved = 0;
    v.type = in_shape == 0 ? &t_ent : in_shape == 1 ? &t_agg : &t_int;
    isym.name = n_inv; v.inverse_symbol = &isym; v.inverse_attribute = 0;
    g_attr_where = in_where; g_attr_up.name = &vname; g_attr_down.name = &vname;
    g_rep_calls = g_rep_error_class = g_vf_calls = 0;
    VAR_resolve_types(&v);
    if (in_shape == 2) {
        __CPROVER_assert(g_rep_error_class >= 1 && g_rep_errnum == INVERSE_BAD_ENTITY, "C04 an INVERSE over something that is not an entity is rejected (INVERSE_BAD_ENTITY)");
        __CPROVER_assert(v.inverse_attribute == 0, "no inverse attribute is recorded for a bad INVERSE");
    } else if (in_where == 1) {
        __CPROVER_assert(g_rep_calls == 0 && v.inverse_attribute == &g_attr_up, "a well-formed INVERSE is accepted and bound to the attribute of the named entity");
    } else {
        __CPROVER_assert(g_rep_error_class >= 1 && g_rep_errnum == INVERSE_BAD_ATTR, "C04 an INVERSE ... FOR a name that is not an attribute of the named entity (declared or inherited; a subtype's attribute does not count) is rejected with INVERSE_BAD_ATTR");
        __CPROVER_assert(g_rep_sym == &isym && g_rep_a1 == (const void *)n_inv, "C20 the INVERSE diagnostic is attributed to the FOR symbol and quotes the attribute name");
        __CPROVER_assert(v.inverse_attribute == 0, "no inverse attribute is recorded for a bad INVERSE");
    }
    if (g_vf_calls) __CPROVER_assert(g_vf_scope == &ent && g_vf_name == n_inv && g_vf_strict == 1, "the attribute look-up is asked about the named entity, the FOR name, strictly");
}

/* C04/C20 (function calls): a call of an undefined name is rejected (UNDEFINED_FUNC, quoting that name); a call with the wrong
 * number of arguments is diagnosed quoting the function's name, then the number of arguments USED, then the number EXPECTED */
void h_funcall(void)
{
    IN(int, in_found); IN(int, in_nargs); IN(int, in_pcount);
    static struct Expression_ ex; static struct Scope_ t_fc, fn, scope; static struct TypeHead_ h_fc; static struct TypeBody_ b_fc; static struct Function_ fu;
    static struct Linked_List_ args; static struct Link_ amk; static char n_f[4] = "fun";
    __CPROVER_assume(in_nargs >= 0 && in_nargs <= 1000 && in_pcount >= 0 && in_pcount <= 1000);
    t_fc.u.type = &h_fc; h_fc.body = &b_fc; b_fc.type = funcall_;
    ex.type = &t_fc; ex.symbol.name = n_f; ex.symbol.resolved = 0;
    args.mark = &amk; amk.next = &amk; amk.prev = &amk; ex.u.funcall.list = &args;      /* the arguments themselves are resolved elsewhere */
    fn.u.func = &fu; fu.pcount = in_pcount; fu.return_type = &t_fc;
    g_sf_result = in_found ? &fn : 0; g_sf_kind = OBJ_FUNCTION; g_sf_calls = 0; g_nargs = in_nargs;
    g_rep_calls = g_rep_error_class = 0;
    EXP_resolve(&ex, &scope, 0);
    __CPROVER_assert(g_sf_calls >= 1 && g_sf_name == n_f, "the function is looked up under the name written in the call");
    if (!in_found) {
        __CPROVER_assert(g_rep_error_class == 1 && g_rep_errnum == UNDEFINED_FUNC && (ex.symbol.resolved & RESOLVE_FAILED), "C04 a call of an undefined function is rejected with UNDEFINED_FUNC and the expression marked failed");
        __CPROVER_assert(g_rep_sym == &ex.symbol && g_rep_a1 == (const void *)n_f, "C20 the diagnostic is attributed to the call and quotes the undefined name");
    } else if (in_nargs != in_pcount) {
        __CPROVER_assert(g_rep_calls == 1 && g_rep_errnum == WRONG_ARG_COUNT, "a call with the wrong number of arguments is diagnosed");
        __CPROVER_assert(g_rep_sym == &ex.symbol && g_rep_a1 == (const void *)n_f && g_rep_i1 == in_nargs && g_rep_i2 == in_pcount, "C20 the wrong-argument-count diagnostic quotes the function's name, the number of arguments the call uses and the number the function expects, in that order");
    } else
        __CPROVER_assert(g_rep_calls == 0 && ex.u.funcall.function == &fn && !(ex.symbol.resolved & RESOLVE_FAILED), "a call with the right number of arguments is accepted and bound to the function");
}

/* C04/C20/C06 (names used as expressions): an undefined name is rejected (UNDEFINED, quoting it); a function that has parameters but is
 * used without an argument list is diagnosed with its name, 0 arguments used and the number expected - without touching invalid memory */
void h_identifier(void)
{
    IN(int, in_found); IN(int, in_pcount);
    static struct Expression_ ex; static struct Scope_ t_id, fn, scope, t_fc, t_unk, t_ret; static struct TypeHead_ h_id; static struct TypeBody_ b_id; static struct Function_ fu; static char n_f[4] = "fun";
    __CPROVER_assume(in_pcount >= 0 && in_pcount <= 1000);
    t_id.u.type = &h_id; h_id.body = &b_id; b_id.type = identifier_;
    ex.type = &t_id; ex.symbol.name = n_f; ex.symbol.resolved = 0;
    scope.type = OBJ_SCHEMA; scope.enum_table = 0;
    fn.u.func = &fu; fu.pcount = in_pcount; fu.return_type = &t_ret;
    Type_Funcall = &t_fc; Type_Unknown = &t_unk;
    g_attr_where = 0;                                   /* not a variable / attribute */
    g_sf_result = in_found ? &fn : 0; g_sf_kind = OBJ_FUNCTION; g_sf_calls = 0; g_listadd_calls = 0;
    g_rep_calls = g_rep_error_class = 0;
    EXP_resolve(&ex, &scope, 0);
    if (!in_found) {
        __CPROVER_assert(g_rep_error_class == 1 && g_rep_errnum == UNDEFINED && (ex.symbol.resolved & RESOLVE_FAILED), "C04 a reference to an undefined name is rejected with UNDEFINED and the expression marked failed");
        __CPROVER_assert(g_rep_sym == &ex.symbol && g_rep_a1 == (const void *)n_f, "C20 the diagnostic is attributed to the reference and quotes the undefined name");
    } else {
        __CPROVER_assert(ex.type == &t_fc && ex.return_type == &t_ret && g_listadd_calls == 1 && g_listadd_item == (void *)&fn, "a bare function name becomes a call of that function without arguments");
        if (in_pcount != 0) {
            __CPROVER_assert(g_rep_calls == 1 && g_rep_errnum == WRONG_ARG_COUNT && (ex.symbol.resolved & RESOLVE_FAILED), "C04 a function that has parameters but is used without an argument list is diagnosed and the expression marked failed");
            __CPROVER_assert(g_rep_sym == &ex.symbol && g_rep_a1 == (const void *)n_f && g_rep_i1 == 0 && g_rep_i2 == in_pcount, "C20 the diagnostic quotes the function's name, 0 arguments used and the number of parameters expected");
        } else
            __CPROVER_assert(g_rep_calls == 0 && !(ex.symbol.resolved & RESOLVE_FAILED), "a parameterless function used by name is accepted");
    }
}

/* C04/C20 (type references): a reference to a type name that is not declared is rejected (UNDEFINED_TYPE, quoting the name, the
 * reference replaced by the bad type and marked failed); a name that denotes something that is no type is rejected (NOT_A_TYPE);
 * an entity name yields the entity's type */
void h_type_ref(void)
{
    IN(int, in_kind);      /* 0: nothing of that name, 1: an entity, 2: a function (not a type) */
    static struct Scope_ tref, scope, ent, t_bad, t_ent; static struct TypeHead_ th; static struct Entity_ ee; static char n_t[4] = "typ";
    __CPROVER_assume(in_kind >= 0 && in_kind <= 2);
    tref.u.type = &th; th.body = 0; th.head = 0; tref.superscope = &scope; tref.symbol.name = n_t; tref.symbol.resolved = 0;
    ent.u.entity = &ee; ee.type = &t_ent; t_ent.symbol.resolved = RESOLVED;
    Type_Bad = &t_bad;
    static char objname[9] = "function"; OBJ[(int)OBJ_FUNCTION].type = objname;
    g_sf_result = in_kind == 0 ? 0 : (void *)&ent; g_sf_kind = in_kind == 1 ? OBJ_ENTITY : OBJ_FUNCTION; g_sf_calls = 0;
    g_rep_calls = g_rep_error_class = 0;
    Type t = &tref;
    TYPE_resolve(&t);
    __CPROVER_assert(g_sf_calls == 1 && g_sf_name == n_t, "the type is looked up under the name written in the reference");
    if (in_kind == 0) {
        __CPROVER_assert(g_rep_error_class == 1 && g_rep_errnum == UNDEFINED_TYPE && (tref.symbol.resolved & RESOLVE_FAILED) && t == &t_bad, "C04 a reference to an undeclared type is rejected with UNDEFINED_TYPE, marked failed and replaced by the bad type");
        __CPROVER_assert(g_rep_sym == &tref.symbol && g_rep_a1 == (const void *)n_t, "C20 the diagnostic is attributed to the reference and quotes the undeclared name");
    } else if (in_kind == 1) {
        __CPROVER_assert(g_rep_calls == 0 && t == &t_ent, "a reference to an entity name becomes the entity's type");
    } else {
        __CPROVER_assert(g_rep_error_class == 1 && g_rep_errnum == NOT_A_TYPE && (tref.symbol.resolved & RESOLVE_FAILED), "C04 a name that denotes something that is not a type is rejected with NOT_A_TYPE");
        __CPROVER_assert(g_rep_sym == &tref.symbol && g_rep_a1 == (const void *)n_t, "C20 the diagnostic quotes the offending name");
    }
}

/* C04/C20 (supertype references): SUBTYPE OF (x) where x is not a declared entity is rejected (UNKNOWN_SUPERTYPE quoting x and the
 * entity, entity marked failed); a declared supertype is linked both ways (it gains the entity as a subtype unless it lists it already) */
void h_supertype_ref(void)
{
    IN(int, in_found); IN(int, in_listed);
    static struct Scope_ e1, sup, scope; static struct Entity_ ee1, esup; static struct Symbol_ sym;
    static struct Linked_List_ syms, sublist; static struct Link_ ym, y1, bm, b1; static char n_e[2] = "e", n_s[2] = "s";
    e1.u.entity = &ee1; e1.symbol.name = n_e; e1.symbol.resolved = 0; e1.superscope = &scope; ee1.supertypes = 0;
    sym.name = n_s; syms.mark = &ym; ym.next = &y1; ym.prev = &y1; y1.next = &ym; y1.prev = &ym; y1.data = &sym; ee1.supertype_symbols = &syms;
    sup.u.entity = &esup; sup.symbol.name = n_s; sup.symbol.resolved = RESOLVED;
    sublist.mark = &bm;
    if (in_listed) { bm.next = &b1; bm.prev = &b1; b1.next = &bm; b1.prev = &bm; b1.data = &e1; } else { bm.next = &bm; bm.prev = &bm; }
    esup.subtypes = &sublist;
    print_objects_while_running = 0;
    g_sf_result = in_found ? &sup : 0; g_sf_kind = OBJ_ENTITY; g_sf_calls = 0; g_listadd_calls = 0;
    g_rep_calls = g_rep_error_class = 0;
    ENTITYresolve_supertypes(&e1);
    __CPROVER_assert(g_sf_calls == 1 && g_sf_name == n_s, "the supertype is looked up under the name written after SUBTYPE OF");
    if (!in_found) {
        __CPROVER_assert(g_rep_error_class == 1 && g_rep_errnum == UNKNOWN_SUPERTYPE && (e1.symbol.resolved & RESOLVE_FAILED), "C04 a supertype that is not a declared entity is rejected with UNKNOWN_SUPERTYPE and the entity marked failed");
        __CPROVER_assert(g_rep_sym == &sym && g_rep_a1 == (const void *)n_s, "C20 the diagnostic is attributed to the supertype reference and quotes its name");
    } else {
        __CPROVER_assert(g_rep_calls == 0 && !(e1.symbol.resolved & RESOLVE_FAILED), "a declared supertype is accepted");
        /* first LISTadd_last: the entity's own supertype list; a second one only if the supertype did not list the entity */
        __CPROVER_assert(g_listadd_calls == (in_listed ? 1 : 2), "the supertype gains the entity as a subtype exactly when it did not list it already");
    }
}

/* C06/C04 (type aliases): TYPE a = b where b is still being resolved - i.e. a is defined, directly or indirectly, in terms of itself -
 * is rejected with an ERROR-class diagnostic and marked failed, without touching the unfinished type's missing body; an alias of a
 * finished type takes over that type's body */
void h_type_alias(void)
{
    IN(int, in_cycle); IN(int, in_warn); g_warn_enabled = in_warn;
    static struct Scope_ ta, tb; static struct TypeHead_ ha, hb; static struct TypeBody_ bb; static char n_a[2] = "a", n_b[2] = "b";
    ta.u.type = &ha; ha.body = 0; ha.head = &tb; ta.symbol.name = n_a; ta.symbol.resolved = 0;
    tb.u.type = &hb; tb.symbol.name = n_b; hb.head = 0;
    if (in_cycle) { hb.body = 0; tb.symbol.resolved = RESOLVE_IN_PROGRESS; }      /* b waits for a (which waits for b) */
    else { hb.body = &bb; bb.type = integer_; bb.base = 0; tb.symbol.resolved = RESOLVED; }
    g_rep_calls = g_rep_error_class = 0;
    Type t = &ta;
    TYPE_resolve(&t);
    if (in_cycle) {
        __CPROVER_assert(g_rep_error_class >= 1 && (ta.symbol.resolved & RESOLVE_FAILED), "C04 a type defined in terms of itself is rejected with an ERROR-class diagnostic and marked failed");
        __CPROVER_assert(g_rep_sym == &ta.symbol, "C20 the diagnostic is attributed to the type being defined");
    } else
        __CPROVER_assert(g_rep_calls == 0 && ha.body == &bb && !(ta.symbol.resolved & RESOLVE_FAILED), "an alias of a resolved type is resolved and shares that type's body");
}
