/* Unit resolve_c: src/express/resolve.c compiled unmodified (Route C) */
#include <stdio.h>
#include <stdlib.h>
#include <string.h>
#include <stdarg.h>
#include "verif.h"
#include "express/scope.h"   /* first inclusion must be the rewritten copy (union -> struct), see unit.json */
#include "src/express/resolve.c"

/* ---- recording stub for the reporter ---- */
int g_rep_calls, g_rep_errnum, g_rep_error_class, g_rep_i1, g_rep_i2; Symbol *g_rep_sym; const void *g_rep_a1, *g_rep_a2;
void ERRORreport_with_symbol(enum ErrorCode errnum, Symbol *sym, ...)
{
    va_list ap; va_start(ap, sym);
    g_rep_calls++; g_rep_errnum = errnum; g_rep_sym = sym; if (errnum != IMPLICIT_DOWNCAST) g_rep_error_class++;
    /* conversions per the table formats (error.c): two %s for OVERLOADED_ATTR / MISSING_SUPERTYPE / REDECL_*, one for the loop diagnostics */
    g_rep_a1 = va_arg(ap, const void *);
    if (errnum == OVERLOADED_ATTR || errnum == MISSING_SUPERTYPE || errnum == REDECL_NO_SUCH_ATTR || errnum == REDECL_NO_SUCH_SUPERTYPE) g_rep_a2 = va_arg(ap, const void *);
    if (errnum == WRONG_ARG_COUNT) { g_rep_i1 = va_arg(ap, int); g_rep_i2 = va_arg(ap, int); }   /* "Call to %s uses %d arguments, but expected %d." */
    va_end(ap);
}
/* ---- model of the contract of ENTITYget_named_attribute (entity.c): own or inherited attribute of that name ---- */
Variable g_inherited; Entity g_gna_entity; char *g_gna_name; int g_gna_calls;
Variable ENTITYget_named_attribute(Entity e, char *name) { g_gna_calls++; g_gna_entity = e; g_gna_name = name; return g_inherited; }
void *DICTdo(DictionaryEntry *de) { (void)de; return 0; }
/* ---- models for the function-call arm of EXP_resolve: the scope look-up answers with the harness-chosen object and kind
 *      (contract of SCOPEfind: the object of that name and DICT_type = its kind, or NULL), the argument list has the
 *      harness-chosen length ---- */
void *g_sf_result; char g_sf_kind; int g_sf_calls; char *g_sf_name; int g_nargs;
char DICT_type;
void *SCOPEfind(Scope s, char *name, int type) { (void)s; (void)type; g_sf_calls++; g_sf_name = name; DICT_type = g_sf_kind; return g_sf_result; }
int LISTget_length(Linked_List l) { (void)l; return g_nargs; }
struct Scope_ *FUNC_NVL, *FUNC_USEDIN;
int g_warn_enabled; bool ERRORis_enabled(enum ErrorCode e) { (void)e; return g_warn_enabled != 0; }   /* -w switches: harness-chosen */
struct Object OBJ[256];   /* the object-kind table (object.c), filled by the harness where needed */
/* models for the identifier arm of EXP_resolve: no enumeration item of that name; list primitives */
void *DICTlookup(Dictionary d, char *n) { (void)d; (void)n; return 0; }
static struct Linked_List_ g_newlist; static struct Link_ g_newmark; int g_listadd_calls; void *g_listadd_item;
Linked_List LISTcreate(void) { g_newlist.mark = &g_newmark; g_newmark.next = &g_newmark; g_newmark.prev = &g_newmark; return &g_newlist; }
void *LISTadd_last(Linked_List l, void *item) { (void)l; g_listadd_calls++; g_listadd_item = item; return item; }
/* ---- models of the contracts of the two attribute look-ups (schema.c / entity.c), over one ghost fact chosen by the harness:
 *      where the name is declared relative to the entity asked about: 1 = in it or in an ancestor, 2 = only in a subtype, 0 = nowhere.
 *      VARfind(entity, name, strict): own or inherited attribute, never a subtype's (enforced on the real bodies in unit entity_c, h_VARfind);
 *      ENTITYresolve_attr_ref(e, 0, ref): also searches subtypes, reporting only the IMPLICIT_DOWNCAST warning for a hit there, and
 *      reports UNKNOWN_ATTR_IN_ENTITY when the name is found nowhere (entity.c:248) ---- */
int g_attr_where; struct Variable_ g_attr_up, g_attr_down; int g_vf_calls; Scope g_vf_scope; char *g_vf_name; int g_vf_strict;
Variable VARfind(Scope scope, char *name, int strict) { g_vf_calls++; g_vf_scope = scope; g_vf_name = name; g_vf_strict = strict; return g_attr_where == 1 ? &g_attr_up : 0; }
Variable ENTITYresolve_attr_ref(Entity e, Symbol *grp_ref, Symbol *attr_ref)
{
    (void)grp_ref;
    if (g_attr_where == 1) return &g_attr_up;
    if (g_attr_where == 2) { ERRORreport_with_symbol(IMPLICIT_DOWNCAST, attr_ref, e->symbol.name); return &g_attr_down; }
    ERRORreport_with_symbol(UNKNOWN_ATTR_IN_ENTITY, attr_ref, attr_ref->name, e->symbol.name); return 0;
}
#include "harnesses.c"
