/* Unit resolve_c: src/express/resolve.c compiled unmodified (Route C) */
#include <stdio.h>
#include <stdlib.h>
#include <string.h>
#include <stdarg.h>
#include "verif.h"
#include "express/scope.h"   /* first inclusion must be the rewritten copy (union -> struct), see unit.json */
#include "src/express/resolve.c"

/* ---- recording stub for the reporter ---- */
int g_rep_calls, g_rep_errnum; Symbol *g_rep_sym; const void *g_rep_a1, *g_rep_a2;
void ERRORreport_with_symbol(enum ErrorCode errnum, Symbol *sym, ...)
{
    va_list ap; va_start(ap, sym);
    g_rep_calls++; g_rep_errnum = errnum; g_rep_sym = sym;
    /* conversions per the table formats (error.c): two %s for OVERLOADED_ATTR / MISSING_SUPERTYPE / REDECL_*, one for the loop diagnostics */
    g_rep_a1 = va_arg(ap, const void *);
    if (errnum == OVERLOADED_ATTR || errnum == MISSING_SUPERTYPE || errnum == REDECL_NO_SUCH_ATTR || errnum == REDECL_NO_SUCH_SUPERTYPE) g_rep_a2 = va_arg(ap, const void *);
    va_end(ap);
}
/* ---- model of the contract of ENTITYget_named_attribute (entity.c): own or inherited attribute of that name ---- */
Variable g_inherited; Entity g_gna_entity; char *g_gna_name; int g_gna_calls;
Variable ENTITYget_named_attribute(Entity e, char *name) { g_gna_calls++; g_gna_entity = e; g_gna_name = name; return g_inherited; }
void *DICTdo(DictionaryEntry *de) { (void)de; return 0; }
#include "harnesses.c"
