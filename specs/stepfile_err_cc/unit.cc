/* Unit stepfile_err_cc (CXX-FN): how an instance's errors are merged into the file's verdict (C03) */
#define EXPDICT_H
#define _REGISTRY_H
#define private public
#define protected public
#include <iostream>
#include <fstream>
#include "cxx/verif_stream_model.h"
#include "clstepcore/sdai.h"
#include "repo/expdict_iface.h"
class Registry;
#include "cleditor/STEPfile.h"
#undef private
#undef protected
#include <stdio.h>
#include <string.h>
#include <stdlib.h>
#include "err_extract.inc"
#include "src/clutils/errordesc.cc"
#include "verif.h"

/* C03: whatever an instance's reader left in the instance's descriptor reaches the file's descriptor: an instance error (anything worse
 * than a user message) leaves the file's severity worse than a user message and is counted; the file's severity never improves */
extern "C" void h_AppendEntityErrorMsg()
{
    IN(int, in_sev); IN(int, in_file); IN(int, in_count);
    __CPROVER_assume(in_sev >= SEVERITY_MAX && in_sev <= SEVERITY_NULL && in_file >= SEVERITY_MAX && in_file <= SEVERITY_NULL);
    __CPROVER_assume(in_count >= 0 && in_count < 1000000);
    STEPfile *f = (STEPfile *)malloc(sizeof(STEPfile)); new (&f->_error) ErrorDescriptor((Severity)in_file);
    f->_errorCount = in_count;
    ErrorDescriptor e((Severity)in_sev);
    Severity r = f->AppendEntityErrorMsg(&e);
    __CPROVER_assert(f->_error.severity() <= (Severity)in_file, "C03 merging an instance's errors never improves the file's severity");
    if (in_sev < SEVERITY_USERMSG) {
        __CPROVER_assert(f->_error.severity() < SEVERITY_USERMSG && r < SEVERITY_USERMSG, "C03 an instance error (worse than a user message) leaves the file's severity worse than a user message");
        __CPROVER_assert(f->_errorCount == in_count + 1, "C03 an instance error is counted once");
    } else {
        __CPROVER_assert(f->_errorCount == in_count, "a clean instance or a user message is not counted as an error");
        __CPROVER_assert(f->_error.severity() == (in_file < in_sev ? in_file : in_sev), "a user message is merged as a user message");
    }
}
