/* Unit pretty_where_c (C extraction): WHERE_out, the printer of WHERE clauses of entities, types and rules (C07) */
#include <stdio.h>
#include <stdlib.h>
#include <string.h>
#include <stdarg.h>
#include <stdbool.h>
#include "verif.h"
#include "express/scope.h"
#include "express/expr.h"
#include "express/alg.h"
#include "express/linklist.h"
int indent2, exppp_nesting_indent = 2, exppp_continuation_indent = 4;
#define EV 12
static int g_n; static int g_kind[EV]; static const char *g_label[EV]; static Expression g_expr[EV];   /* kinds: 'W' header, 'L' labelled head, 'U' unlabelled head, 'E' expression, ';' terminator, '?' other */
void raw(const char *fmt, ...)
{
    va_list ap; va_start(ap, fmt);
    int k = '?'; const char *lab = 0;
    if (!strcmp(fmt, "%*s%s")) { (void)va_arg(ap, int); (void)va_arg(ap, const char *); const char *t = va_arg(ap, const char *); k = !strcmp(t, "WHERE\n") ? 'W' : '?'; }
    else if (!strcmp(fmt, "%*s%-*s: ")) { (void)va_arg(ap, int); (void)va_arg(ap, const char *); (void)va_arg(ap, int); lab = va_arg(ap, const char *); k = 'L'; }
    else if (!strcmp(fmt, "%*s%-*s  ")) { k = 'U'; }
    else if (!strcmp(fmt, ";\n")) k = ';';
    va_end(ap);
    if (g_n < EV) { g_kind[g_n] = k; g_label[g_n] = lab; g_expr[g_n] = 0; } g_n++;
}
void EXPR_out(Expression e, int paren) { (void)paren; if (g_n < EV) { g_kind[g_n] = 'E'; g_label[g_n] = 0; g_expr[g_n] = e; } g_n++; }
#include "where_extract.inc"

static struct Linked_List_ lst; static struct Link_ mark, lk[2]; static struct Where_ wh[2]; static Symbol lab[2]; static char ln[2][4]; static struct Expression_ ex[2];
void h_WHERE_out(void)
{
    IN(int, in_n); IN(int, in_l0); IN(int, in_l1); IN_ARR(char, in_a, 3); IN_ARR(char, in_b, 3); IN(int, in_none);
    __CPROVER_assume(in_n >= 0 && in_n <= 2);
    for (int i = 0; i < 3; i++) { ln[0][i] = in_a[i]; ln[1][i] = in_b[i]; } ln[0][3] = ln[1][3] = 0;
    lst.mark = &mark; mark.next = in_n ? &lk[0] : &mark; mark.prev = in_n ? &lk[in_n - 1] : &mark;
    for (int i = 0; i < 2; i++) if (i < in_n) { lk[i].next = i + 1 < in_n ? &lk[i + 1] : &mark; lk[i].prev = i ? &lk[i - 1] : &mark; lk[i].data = &wh[i]; }
    lab[0].name = ln[0]; lab[1].name = ln[1];
    wh[0].label = in_l0 ? &lab[0] : 0; wh[1].label = in_l1 ? &lab[1] : 0; wh[0].expr = &ex[0]; wh[1].expr = &ex[1];
    g_n = 0;
    WHERE_out(in_none ? (Linked_List)0 : &lst, 0);
    if (in_none) { __CPROVER_assert(g_n == 0, "no WHERE clause, no output"); return; }
    __CPROVER_assert(g_n == 1 + 3 * in_n && g_kind[0] == 'W', "C07 a WHERE clause is the keyword followed by exactly one `label: expression;` line per rule");
    int ok = 1;
    for (int i = 0; i < 2; i++) if (i < in_n) {
        int has = i ? in_l1 : in_l0;
        if (g_kind[1 + 3 * i] != (has ? 'L' : 'U')) ok = 0;
        if (has && g_label[1 + 3 * i] != ln[i]) ok = 0;
        if (g_kind[2 + 3 * i] != 'E' || g_expr[2 + 3 * i] != &ex[i]) ok = 0;
        if (g_kind[3 + 3 * i] != ';') ok = 0;
    }
    __CPROVER_assert(ok, "C07 the rules are printed in declaration order, each with its own label (when it has one), its own expression and a terminating `;`");
}
