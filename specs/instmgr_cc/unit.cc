/* Unit instmgr_cc (CXX-FN): InstMgr::Append/FindFileId/Delete/ClearInstances extracted from instmgr.cc */
#define EXPDICT_H
#define private public
#define protected public
#include <iostream>
#include <map>
#include "cxx/verif_stream_model.h"
#include "clstepcore/sdai.h"
#include "repo/expdict_iface.h"
#include "clstepcore/instmgr.h"
#undef private
#undef protected
#include <stdlib.h>
extern "C" { long verif_map_key; int nondet_int(); }
static int debug_level = 0;

/* ---- contract stubs of the replaced callees ---- */
static MgrNode *g_new_node; static int g_new_calls; static SDAI_Application_instance *g_new_se; static stateEnum g_new_state;
static int g_append_calls; static MgrNode *g_appended; static int g_remove_calls, g_remove_index, g_clear_calls, g_node_remove_calls, g_delete_calls; static MgrNode *g_deleted;
static MgrNode *verif_new_MgrNode(SDAI_Application_instance *se, stateEnum s) { g_new_calls++; g_new_se = se; g_new_state = s; g_new_node->se = se; g_new_node->currState = s; return g_new_node; }
static void verif_master_Append(MgrNodeArray *, MgrNode *mn) { g_append_calls++; g_appended = mn; }
static int verif_node_fileid(MgrNode *mn) { return mn->se->STEPfile_id; }            /* MgrNode::GetFileId */
static void verif_node_Remove(MgrNode *) { g_node_remove_calls++; }
static void verif_master_Remove(MgrNodeArray *, int index) { g_remove_calls++; g_remove_index = index; }
static void verif_delete_node(MgrNode *n) { g_delete_calls++; g_deleted = n; }
static void verif_master_Clear(MgrNodeArray *) { g_clear_calls++; }
#include "instmgr_extract.inc"
#include "verif.h"

static InstMgr *mk_mgr(int maxid) { InstMgr *m = (InstMgr *)malloc(sizeof(InstMgr)); m->maxFileId = maxid; m->master = (MgrNodeArray *)malloc(8); m->sortedMaster = new std::map<int, MgrNode *>; return m; }
static MgrNode *mk_node(int id) { MgrNode *n = (MgrNode *)malloc(sizeof(MgrNode)); n->se = (SDAI_Application_instance *)malloc(sizeof(SDAI_Application_instance)); n->se->STEPfile_id = id; return n; }

/* C13: Append against the abstract view (id -> node map stated for one arbitrary key, max id, appended sequence) */
extern "C" void h_Append()
{
    IN(int, in_maxid); IN(int, in_id); IN(int, in_key); IN(int, in_present); IN(int, in_same);
    __CPROVER_assume(in_maxid >= -1 && in_maxid < 1000000000 && in_id >= 0 && in_id < 1000000000);
    InstMgr *m = mk_mgr(in_maxid);
    verif_map_key = in_key;
    /* the ghost key's entry before the call: absent, or a node whose instance carries that id (representation invariant) */
    MgrNode *old = mk_node(in_key);
    m->sortedMaster->_present = in_present != 0; if (in_present) { m->sortedMaster->_slot.first = in_key; m->sortedMaster->_slot.second = old; }
    __CPROVER_assume(!in_present || in_key <= in_maxid);        /* invariant: the maximum id is never below a live id */
    SDAI_Application_instance *se = in_same && in_present ? old->se : (SDAI_Application_instance *)malloc(sizeof(SDAI_Application_instance));
    if (!(in_same && in_present)) se->STEPfile_id = in_id;
    /* any other id may be taken by some other, well-formed node (arbitrary contents) */
    m->sortedMaster->_other.second = mk_node(nondet_int());
    g_new_node = (MgrNode *)malloc(sizeof(MgrNode)); g_new_calls = g_append_calls = 0;
    MgrNode *r = m->InstMgr::Append(se, completeSE);
    int id = se->STEPfile_id;
    if (in_same && in_present && in_key != 0) {
        __CPROVER_assert(r == 0 && g_append_calls == 0 && m->maxFileId == in_maxid, "C13 appending an instance that is already managed under its id changes nothing");
    } else if (r != 0) {
        __CPROVER_assert(g_new_calls == 1 && g_append_calls == 1 && g_appended == r && r->se == se, "C13 a new instance gets exactly one node, appended at the end of the master sequence");
        __CPROVER_assert(id > 0 || in_maxid == -1, "an id was assigned");
        __CPROVER_assert(m->maxFileId >= id && m->maxFileId >= in_maxid, "C13 the maximum id is never below a live id and never decreases on Append");
        if (in_id == 0) __CPROVER_assert(id > in_maxid, "C13 an id handed out automatically is above every id seen since the manager was last emptied");
        if (id == in_key) __CPROVER_assert(m->InstMgr::FindFileId(in_key) == r, "C13 look-up by the new instance's id returns its node");
        else if (in_present) __CPROVER_assert(m->InstMgr::FindFileId(in_key) == old, "C13 Append leaves the look-up of every other id unchanged");
        else __CPROVER_assert(m->InstMgr::FindFileId(in_key) == 0, "C13 Append does not make any other id appear");
        if (in_present && in_id == in_key && !in_same) __CPROVER_assert(id != in_key, "C13 an instance arriving with an id that is already taken by another instance gets a fresh id");
    }
}

/* C13: Delete and ClearInstances */
extern "C" void h_Delete_Clear()
{
    IN(int, in_maxid); IN(int, in_id); IN(int, in_key); IN(int, in_idx); IN(int, in_other);
    __CPROVER_assume(in_maxid >= -1 && in_id >= 0 && in_id <= in_maxid);
    InstMgr *m = mk_mgr(in_maxid);
    verif_map_key = in_key;
    MgrNode *node = mk_node(in_id); node->arrayIndex = in_idx;
    MgrNode *other = mk_node(in_key);
    /* before: the ghost key maps to `node` if it is node's id, else to some other node or nothing */
    if (in_key == in_id) { m->sortedMaster->_present = 1; m->sortedMaster->_slot.first = in_key; m->sortedMaster->_slot.second = node; }
    else { m->sortedMaster->_present = in_other != 0; m->sortedMaster->_slot.first = in_key; m->sortedMaster->_slot.second = other; }
    g_remove_calls = g_node_remove_calls = g_delete_calls = g_clear_calls = 0;
    m->InstMgr::Delete(node);
    __CPROVER_assert(g_remove_calls == 1 && g_remove_index == in_idx, "C13 Delete removes exactly the node's own slot from the master sequence");
    __CPROVER_assert(g_node_remove_calls == 1 && g_delete_calls == 1 && g_deleted == node, "C13 Delete unlinks and destroys exactly that node");
    if (in_key == in_id) __CPROVER_assert(m->InstMgr::FindFileId(in_key) == 0, "C13 after Delete look-up by the deleted instance's id finds nothing");
    else __CPROVER_assert(m->InstMgr::FindFileId(in_key) == (in_other ? other : 0), "C13 Delete leaves the look-up of every other id unchanged");
    m->InstMgr::ClearInstances();
    __CPROVER_assert(g_clear_calls == 1 && m->InstMgr::FindFileId(in_key) == 0 && m->maxFileId == -1, "C13 ClearInstances empties the sequence and the id index and resets the id counter");
}

/* C13: Delete by instance removes exactly the node filed under the instance's id and never lowers the id counter (ids handed out
 * later stay above every id seen since the manager was last emptied) */
extern "C" void h_Delete_by_instance()
{
    IN(int, in_maxid); IN(int, in_id); IN(int, in_key); IN(int, in_idx); IN(int, in_other);
    __CPROVER_assume(in_maxid >= 0 && in_id >= 0 && in_id <= in_maxid);
    InstMgr *m = mk_mgr(in_maxid);
    verif_map_key = in_key;
    MgrNode *node = mk_node(in_id); node->arrayIndex = in_idx;
    MgrNode *other = mk_node(in_key);
    __CPROVER_assume(in_key == in_id);          /* the ghost key is the instance's id: the node is what the index holds for it */
    m->sortedMaster->_present = 1; m->sortedMaster->_slot.first = in_key; m->sortedMaster->_slot.second = node;
    g_remove_calls = g_node_remove_calls = g_delete_calls = g_clear_calls = 0;
    m->InstMgr::Delete(node->se);
    __CPROVER_assert(g_remove_calls == 1 && g_remove_index == in_idx && g_delete_calls == 1 && g_deleted == node, "C13 Delete by instance removes and destroys exactly the node filed under the instance's id");
    __CPROVER_assert(m->InstMgr::FindFileId(in_id) == 0, "C13 after Delete by instance the id is free");
    __CPROVER_assert(m->maxFileId == in_maxid, "C13 deleting an instance never lowers the id counter: ids handed out afterwards stay above every id seen since the manager was last emptied");
}
