/* Unit exppp_c: long-string breaking routines extracted from src/exppp/exppp.c */
#include <stdio.h>
#include <stdlib.h>
#include <string.h>
#include <stdarg.h>
#include <stdbool.h>
#include "verif.h"
int curpos, indent2, exppp_linelength; bool printedSpaceLast;
/* ---- transcript: payload chunks handed to raw() and the separators emitted between them ---- */
#define CH_MAX 16
const char *g_ch_ptr[CH_MAX]; int g_ch_len[CH_MAX]; int g_ch_n;
int g_open_quotes, g_close_quotes, g_whole; const char *g_whole_ptr; int g_other;
void raw(const char *fmt, ...)
{
    va_list ap; va_start(ap, fmt);
    if (!strcmp(fmt, "%.*s")) { int n = va_arg(ap, int); const char *p = va_arg(ap, const char *); if (g_ch_n < CH_MAX) { g_ch_ptr[g_ch_n] = p; g_ch_len[g_ch_n] = n; } g_ch_n++; }
    else if (!strcmp(fmt, "%s'%s'")) { (void)va_arg(ap, const char *); g_whole_ptr = va_arg(ap, const char *); g_whole++; }
    else if (!strcmp(fmt, "\n%*s'")) g_open_quotes++;                 /* newline, indent, opening quote */
    else if (!strcmp(fmt, "'\n%*s+ '")) { g_close_quotes++; g_open_quotes++; }   /* close, newline, indent, + , reopen */
    else if (!strcmp(fmt, "%s")) { const char *s = va_arg(ap, const char *); if (!strcmp(s, "'") || !strcmp(s, " '")) g_open_quotes++; else g_other++; }
    else if (!strcmp(fmt, "' ")) g_close_quotes++;
    else g_other++;
    va_end(ap);
}
#include "break_extract.inc"

#ifdef VERIF_TIER_THOROUGH
#define BN 14
#else
#define BN 10
#endif
void h_breakLongStr(void)
{
    IN_ARR(char, in_s, BN + 1);
    IN(int, in_curpos); IN(int, in_indent); IN(int, in_linelen); IN_BOOL(in_space);
    in_s[BN] = 0;
    __CPROVER_assume(in_curpos >= 1 && in_curpos <= 200 && in_indent >= 0 && in_indent <= 100 && in_linelen >= 1 && in_linelen <= 200);
    curpos = in_curpos; indent2 = in_indent; exppp_linelength = in_linelen; printedSpaceLast = in_space;
    g_ch_n = g_open_quotes = g_close_quotes = g_whole = g_other = 0;
    int n = (int)strlen(in_s);
    breakLongStr(in_s);
    __CPROVER_assert(g_other == 0, "C07 breakLongStr emits nothing but the payload, quotes and the three fixed separators");
    if (g_whole) {
        __CPROVER_assert(g_whole == 1 && g_whole_ptr == in_s && g_ch_n == 0 && g_open_quotes == 0 && g_close_quotes == 0, "C07 a string that fits is printed whole, once, between quotes");
    } else {
        int pos = 0, ok = 1;
        for (int k = 0; k < CH_MAX; k++) if (k < g_ch_n) { if (g_ch_ptr[k] != in_s + pos || g_ch_len[k] < 1) ok = 0; pos += g_ch_len[k]; }
        __CPROVER_assert(g_ch_n <= CH_MAX && ok, "C07 the pieces of a split string literal are contiguous, non-empty and in order (no character skipped or repeated)");
        __CPROVER_assert(pos == n, "C07 the pieces of a split string literal cover it exactly");
        __CPROVER_assert(g_open_quotes == g_close_quotes && g_open_quotes >= 1, "C07 every piece of a split string literal is opened and closed by a quote");
    }
}
