/* C17 spec predicate shared by the scanner-side (scanner_cc) and generator-side (gen_types_c) units:
 * a defined type gets its own type/<name>.h and .cc iff it is an enumeration or a select that is not a rename.
 * Taken from the property statement ("the set the scanner lists equals the set the generator creates") and
 * fixed once here, so that drift on either side fails that side's obligation. */
#ifndef C17_SPEC_H
#define C17_SPEC_H
/* body kinds a defined type of an accepted schema can have */
static int c17_in_domain(int k)
{
    return k == integer_ || k == real_ || k == string_ || k == binary_ || k == boolean_ || k == logical_ || k == number_ ||
           k == aggregate_ || k == array_ || k == bag_ || k == set_ || k == list_ || k == enumeration_ || k == select_;
}
static int c17_has_own_files(int kind, int renamed)
{
    return (kind == enumeration_ || kind == select_) && !renamed;
}
#endif
