/* Unit schemaprint_c (C extraction from classes_wrapper.cc): how exp2cxx opens the per-schema output files (C12: a run's output does
 * not depend on what an earlier run left behind; C17: which files a schema gets) */
#include <stdio.h>
#include <stdlib.h>
#include <string.h>
#include <stdarg.h>
#include "verif.h"
#include "express/scope.h"
#include "classes.h"
#include "class_strings.h"
/* ---- models / recording stubs ---- */
static int verif_fprintf(FILE *f, const char *fmt, ...) { (void)fmt; __CPROVER_assert(f != 0, "text is printed to an open file"); return 0; }
static int verif_sprintf(char *b, const char *fmt, ...) { (void)fmt; b[0] = 'n'; b[1] = 0; return 1; }
static int verif_snprintf(char *b, size_t n, const char *fmt, ...) { (void)fmt; if (n > 1) { b[0] = 'n'; b[1] = 0; } return 1; }
static int g_creates, g_appends, g_other_opens; static FILE *g_created[8]; static FILE g_files[10]; static FILE *g_append_file;
FILE *FILEcreate(const char *name) { (void)name; FILE *f = &g_files[g_creates < 8 ? g_creates : 8]; if (g_creates < 8) g_created[g_creates] = f; g_creates++; return f; }
static FILE *verif_fopen(const char *name, const char *mode) { (void)name; if (mode[0] == 'a') { g_appends++; g_append_file = &g_files[9]; return &g_files[9]; } g_other_opens++; return &g_files[9]; }
static int g_closed_init; static FILE *g_init_at_close;
void FILEclose(FILE *f) { (void)f; }
static int verif_fclose(FILE *f) { g_closed_init++; g_init_at_close = f; return 0; }
void initUnityFiles(const char *n, FILES *files) { (void)n; files->unity.entity.impl = files->unity.entity.hdr = files->unity.type.impl = files->unity.type.hdr = &g_files[8]; }
void closeUnityFiles(FILES *files) { (void)files; }
void INITFileFinish(FILE *f, Schema s) { (void)s; g_closed_init++; g_init_at_close = f; }
static int g_scope_calls; static FILE *g_init_in_scope;
void SCOPEPrint(Scope scope, FILES *files, Schema schema, void *col, int cnt) { (void)scope; (void)schema; (void)col; (void)cnt; g_scope_calls++; g_init_in_scope = files->init; }
const char *StrToUpper(const char *w) { return w; }
const char *PrettyTmpName(const char *w) { return w; }
void format_for_std_stringout(FILE *f, char *b) { (void)f; (void)b; }
char *RULEto_string(Rule r) { (void)r; return 0; } char *FUNCto_string(Function f) { (void)f; return 0; } char *PROCto_string(Procedure p) { (void)p; return 0; }
void HASHlistinit_by_type(Hash_Table d, HashEntry *de, char t) { (void)d; (void)de; (void)t; }
void *DICTdo(DictionaryEntry *de) { (void)de; return 0; }
#define fprintf verif_fprintf
#define sprintf verif_sprintf
#define snprintf verif_snprintf
#define fopen verif_fopen
#define fclose verif_fclose
#include "schemaprint_extract.inc"
#undef fprintf
#undef sprintf
#undef snprintf
#undef fopen
#undef fclose

/* C12 / C17: on a schema's first pass (suffix 0: the only pass; suffix 1: the first of several) every file SCHEMAprint writes to is
 * CREATED (truncated) - none is opened for appending, so nothing a previous run left in the directory survives; on a later pass (suffix >= 2)
 * the pass's own .h / .cc / Names.h are created and only the schema's single init file - created by the first pass of the same run - is
 * re-opened for appending */
void h_SCHEMAprint_files(void)
{
    IN(int, in_suffix); IN(int, in_done);
    __CPROVER_assume(in_suffix >= 0 && in_suffix <= 9);
    static struct Scope_ schema; static char nm[2] = "s"; static FILES files; static FILE all[4];
    schema.symbol.name = nm; schema.search_id = in_done ? PROCESSED : UNPROCESSED;
    files.incall = &all[0]; files.initall = &all[1]; files.create = &all[2]; files.classes = &all[3];
    g_creates = g_appends = g_other_opens = g_closed_init = g_scope_calls = 0;
    SCHEMAprint(&schema, &files, (void *)0, in_suffix);
    __CPROVER_assert(g_other_opens == 0, "files are opened by creating or appending only");
    if (in_suffix <= 1) {
        __CPROVER_assert(g_appends == 0 && g_creates == 4, "C12 on a schema's first pass its header, source, names header and init file are all created afresh - nothing is appended to what an earlier run left");
        __CPROVER_assert(files.init == g_created[3] && files.inc == g_created[0] && files.lib == g_created[1] && files.names == g_created[2], "each created file is the one the printers write to");
    } else {
        __CPROVER_assert(g_appends == 1 && g_creates == 3 && files.init == g_append_file, "on a later pass only the schema's single init file is re-opened for appending; the pass's own files are created");
    }
    __CPROVER_assert(g_scope_calls == 1 && g_init_in_scope == files.init, "the schema's declarations are printed once, with the init file open");
    __CPROVER_assert(g_closed_init == 1 && g_init_at_close == files.init, "the init file is closed once at the end");
}

/* C06: a schema file with nothing to print (e.g. only FUNCTIONs) never runs SCHEMAprint, so the per-schema names header was never opened:
 * the trailer must not print to it (fprintf's stub asserts an open file) */
void h_print_file_trailer(void)
{
    IN(int, in_printed);
    static FILES files; static FILE all[5];
    files.incall = &all[0]; files.initall = &all[1]; files.create = &all[2]; files.classes = &all[3];
    files.names = in_printed ? &all[4] : (FILE *)0;
    print_file_trailer(&files);
}
