/* Unit pyexpr_c: expression printer of the Python generator (aggregate bounds, initialisers) extracted from classes_python.c */
#include <stdio.h>
#include <stdlib.h>
#include <string.h>
#include <stdarg.h>
#include <stdbool.h>
#include <errno.h>
#include "verif.h"
#include "express/scope.h"   /* first inclusion must be the rewritten copy (union -> struct), see unit.json */
#include "express/express.h"
#include "express/expr.h"
#include "express/type.h"
#define BIGBUFSIZ 96
Expression LITERAL_PI, LITERAL_E;
/* ---- libc model of snprintf: injective rendering of the arguments (see unit.json) ---- */
static void hex(char *d, unsigned long v, int digits) { for (int i = 0; i < 16; i++) if (i < digits) d[i] = "0123456789abcdef"[(v >> (4 * (digits - 1 - i))) & 15]; }
static int verif_snprintf(char *buf, size_t n, const char *fmt, ...)
{
    va_list ap; va_start(ap, fmt); size_t k = 0;
    for (int i = 0; i < 40 && fmt[i]; i++) {
        if (fmt[i] != '%') { if (k + 1 < n) buf[k++] = fmt[i]; continue; }
        i++;
        if (fmt[i] == 's') { const char *s = va_arg(ap, const char *); if (!s) s = "(null)"; for (int j = 0; j < 12 && s[j]; j++) if (k + 1 < n) buf[k++] = s[j]; }
        else if (fmt[i] == 'd') { int v = va_arg(ap, int); if (k + 9 < n) { hex(buf + k, (unsigned)v, 8); k += 8; } }
        else if (fmt[i] == 'e') { double v = va_arg(ap, double); unsigned long b; memcpy(&b, &v, 8); if (k + 17 < n) { hex(buf + k, b, 16); k += 16; } }
        else __CPROVER_assert(0, "snprintf model: a conversion other than %s %d %e");
    }
    va_end(ap); if (n) buf[k] = 0; return (int)k;
}
static char *strliteral_py_dup(char *s) { char *d = malloc(strlen(s) + 1); strcpy(d, s); return d; }   /* stub, see unit.json */
#define snprintf verif_snprintf
#include "pyexpr_extract.inc"
#undef snprintf

#define PN 6
/* C12: the text printed for an expression is a function of the schema text only: it does not change when the pointer that the
 * resolver left in the expression's union (u.variable / u.entity ...) changes, for every expression kind */
void h_EXPRto_python_noninterference(void)
{
    char in_name[PN + 1] = "bound", in_tname[PN + 1] = "ty";      /* names are concrete: what varies is the literal values and the pointers */
    IN(int, in_ival); IN(double, in_rval); IN(int, in_lval); IN(int, in_encoded); IN(int, in_has_tname); IN(int, in_rt);
    static const enum type_enum kinds[] = { integer_, real_, binary_, logical_, boolean_, string_, entity_, identifier_, attribute_, enumeration_, query_, self_, funcall_, op_, aggregate_, oneof_ };
    static struct Variable_ vars[2];
#define var1 vars[0]
#define var2 vars[1]   /* two elements of one array: in cbmc's pointer encoding the low bits (the offset) differ, as the low bits of two heap addresses do */
    static struct Linked_List_ noargs; static struct Link_ nmk;
    noargs.mark = &nmk; nmk.next = &nmk; nmk.prev = &nmk;
    for (unsigned ki = 0; ki < sizeof kinds / sizeof kinds[0]; ki++) {      /* kinds enumerated concretely: a symbolic kind makes cbmc unwind the recursion over a symbolic argument list */
        enum type_enum k = kinds[ki];
        struct Scope_ ty; struct TypeHead_ th; struct TypeBody_ tb; struct Expression_ e1, e2;
        ty.u.type = &th; th.body = &tb; tb.type = k; tb.flags.encoded = in_encoded != 0; ty.symbol.name = in_has_tname ? (char *)in_tname : (char *)0;
        /* the type the resolver computed for the expression (e.g. INTEGER for a bound that names an integer constant) */
        struct Scope_ rty; struct TypeHead_ rth; struct TypeBody_ rtb; rty.u.type = &rth; rth.body = &rtb; rtb.type = in_rt == 0 ? integer_ : in_rt == 1 ? real_ : in_rt == 2 ? string_ : k; rty.symbol.name = 0;
        e1.type = &ty; e2.type = &ty; e1.return_type = &rty; e2.return_type = &rty;
        e1.symbol.name = in_name; e2.symbol.name = in_name;
        /* what the schema text determines */
        if (k == integer_) { e1.u.integer = in_ival; e2.u.integer = in_ival; }
        else if (k == real_) { e1.u.real = in_rval; e2.u.real = in_rval; }
        else if (k == logical_ || k == boolean_) { int lv = (k == boolean_ && in_lval != Ltrue) ? Lfalse : in_lval;   /* a BOOLEAN literal is TRUE or FALSE (the printer has no arm for anything else) */
            e1.u.logical = lv; e2.u.logical = lv; }
        else if (k == binary_) { e1.u.binary = in_name; e2.u.binary = in_name; }
        else if (k == funcall_) { e1.u.funcall.list = &noargs; e2.u.funcall.list = &noargs; e1.u.funcall.function = (struct Scope_ *)&var1; e2.u.funcall.function = (struct Scope_ *)&var2; }
        /* what the address-space layout determines: the resolver's pointer in the union of a name-like expression */
        else { e1.u.variable = &var1; e2.u.variable = &var2; }
        char *t1 = EXPRto_python(&e1);
        char *t2 = EXPRto_python(&e2);
        __CPROVER_assert(strcmp(t1, t2) == 0, "C12 the Python text of an expression (aggregate bound, initialiser) does not depend on the pointer the resolver stored in it: no address bits reach the generated file");
        free(t1); free(t2);
    }
}
