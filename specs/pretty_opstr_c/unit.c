/* Unit pretty_opstr_c (C extraction): EXPRop_string, the operator arm of exppp's length estimator (EXPRlength -> EXPRstring), used by
 * CASEout for every case label and by the generators through FUNCto_string / RULEto_string (C06) */
#include <stdio.h>
#include <stdlib.h>
#include <string.h>
#include "verif.h"
#include "express/scope.h"
#include "express/expr.h"
static int g_str_calls;
void EXPRstring(char *buffer, Expression e)
{
    __CPROVER_assert(e != 0, "C06 the text of an operand is asked for an operand that exists (a unary operator has no second operand)");
    g_str_calls++; buffer[0] = '1'; buffer[1] = 0;
}
#include "opstr_extract.inc"

/* C06: for every operator code the parser can build - binary operators with two operands, negation and NOT with one - the text is built
 * without touching a missing operand.  `CASE a OF -1 :` reaches this with OP_NEGATE. */
void h_EXPRop_string(void)
{
    IN(int, in_op);
    __CPROVER_assume(in_op >= 0 && in_op < OP_LAST);
    static struct Expression_ lit1, lit2, ope;
    int unary = in_op == OP_NEGATE || in_op == OP_NOT;
    ope.e.op_code = in_op; ope.e.op1 = &lit1; ope.e.op2 = unary ? (Expression)0 : &lit2; ope.e.op3 = 0;
    char buffer[64]; buffer[0] = 0; g_str_calls = 0;
    EXPRop_string(buffer, &ope.e);
    int term = 0; for (int i = 0; i < 64; i++) if (buffer[i] == 0) term = 1;
    __CPROVER_assert(term && g_str_calls == (unary ? 1 : 2), "C06 the text of an operator expression is built inside the buffer from the operands it has");
}
