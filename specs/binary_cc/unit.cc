/* Unit binary_cc (CXX-FN): SDAI_Binary reader and writers extracted from sdaiBinary.cc */
#define instmgr_h
#define EXPDICT_H
#define private public
#define protected public
#include <iostream>
#include <sstream>
#include "cxx/verif_stream_model.h"
#include "clstepcore/sdai.h"
#include <ctype.h>
#include <string.h>
#include <stdio.h>
#include <stdlib.h>
#include "clutils/Str.h"
#include "binary_extract.inc"
#undef private
#undef protected
#include "src/clutils/errordesc.cc"
#include "verif.h"

#ifdef VERIF_TIER_THOROUGH
#define BN 8
#else
#define BN 5
#endif
static int g_cri_calls;
/* contract stub: CheckRemainingInput is under contract in unit str_cc */
Severity CheckRemainingInput(istream &, ErrorDescriptor *e, const char *, const char *) { g_cri_calls++; return e->severity(); }

/* C09/C01/C05: "hex" is read to exactly its digits and the closing quote is the last character consumed; a value without
 * its quotes, or with one of them, raises an error and the character that ended it is left unread; memory safety throughout */
extern "C" void h_ReadBinary()
{
    IN_ARR(char, in_d, BN); IN(unsigned, in_n); IN(int, in_open); IN(int, in_close); IN(int, in_ws);
    __CPROVER_assume(in_n <= BN);
    for (int i = 0; i < BN; i++) if ((unsigned)i < in_n) __CPROVER_assume(isxdigit(in_d[i]));
    __CPROVER_assume(in_close >= 1 && in_close <= 255 && !isxdigit(in_close));
    __CPROVER_assume(in_open || in_n >= 1);                       /* the value starts with a quote or a hex digit */
    int p = 0; g_stream_arbitrary = 0;
    if (in_ws) g_stream_script[p++] = ' ';
    if (in_open) g_stream_script[p++] = '"';
    for (int i = 0; i < BN; i++) if ((unsigned)i < in_n) g_stream_script[p++] = in_d[i];
    g_stream_script[p++] = (char)in_close; g_stream_script[p++] = ','; g_stream_len = p;
    istream in; in._m_state = 0; in._m_have = 0; in._m_consumed = 0;
    SDAI_Binary *b = new SDAI_Binary("F", 1);
    ErrorDescriptor err;
    Severity s = b->STEPread(in, &err);
    if (in_open && in_close == '"' && in_n >= 1) {
        __CPROVER_assert(s == SEVERITY_NULL, "C09 a binary between double quotes is read without error");
        __CPROVER_assert(in._m_consumed == (unsigned long)(p - 1), "C09 the closing quote of a binary is the last character consumed: the attribute delimiter stays");
    }
    if (in_n >= 1) {
        int same = strlen(b->c_str()) == in_n;
        for (int i = 0; i < BN; i++) if ((unsigned)i < in_n && same) same = b->c_str()[i] == in_d[i];
        __CPROVER_assert(same, "C01/C09 the binary value stored is exactly the hex digits between the quotes, in order");
    } else __CPROVER_assert(b->empty(), "a binary without digits leaves the value unset");
    if (!in_open || in_close != '"') {
        __CPROVER_assert(s <= SEVERITY_WARNING, "C09/C03 a binary value without one or both of its double quotes raises an error");
        if (in_close != '"') __CPROVER_assert(in._m_consumed == (unsigned long)(p - 2), "C09 the character that ends an unquoted binary (e.g. the attribute delimiter) is left unread");
    }
    __CPROVER_assert(in._m_consumed <= (unsigned long)(p - 1), "C09 the attribute delimiter is never consumed by the binary reader");
}

/* a first character that can start no binary raises an error */
extern "C" void h_ReadBinary_invalid()
{
    IN(int, in_c);
    __CPROVER_assume(in_c >= 1 && in_c <= 255 && !isxdigit(in_c) && in_c != '"' && !isspace(in_c));
    g_stream_arbitrary = 0; g_stream_script[0] = (char)in_c; g_stream_script[1] = ','; g_stream_len = 2;
    istream in; in._m_state = 0; in._m_have = 0; in._m_consumed = 0;
    SDAI_Binary *b = new SDAI_Binary("F", 1);
    ErrorDescriptor err;
    Severity s = b->STEPread(in, &err);
    __CPROVER_assert(s <= SEVERITY_WARNING && b->empty(), "C09/C03 a value that starts with neither a quote nor a hex digit raises an error and leaves the binary unset");
    __CPROVER_assert(in._m_consumed <= 1, "at most the offending character is consumed");
}

/* C01/C09: writer: an unset binary is $, otherwise the stored digits between double quotes */
extern "C" void h_Binary_write()
{
    IN_ARR(char, in_d, BN); IN(unsigned, in_n);
    __CPROVER_assume(in_n <= BN);
    char txt[BN + 1];
    for (int i = 0; i < BN; i++) { if ((unsigned)i < in_n) __CPROVER_assume(isxdigit(in_d[i])); txt[i] = (unsigned)i < in_n ? in_d[i] : 0; }
    txt[BN] = 0;
    SDAI_Binary *b = new SDAI_Binary(txt, (int)in_n);
    ostream out; out._m_written = 0;
    b->STEPwrite(out);
    if (in_n == 0) __CPROVER_assert(out._m_written == 1 && out._m_logc[0] == 'S' && !strcmp(out._m_logt[0], "$"), "C01 an unset binary is written as $");
    else {
        __CPROVER_assert(out._m_written == in_n + 2 && out._m_logc[0] == '"' && out._m_logc[in_n + 1] == '"', "C09 a binary is written between double quotes");
        for (int i = 0; i < BN; i++) if ((unsigned)i < in_n) __CPROVER_assert(out._m_logc[i + 1] == in_d[i], "C01 the digits of a binary are written unchanged, in order");
    }
    std::string str;
    const char *r = b->STEPwrite(str);
    if (in_n == 0) __CPROVER_assert(!strcmp(r, "$"), "C01 an unset binary renders as $ (string form)");
    else {
        __CPROVER_assert(strlen(r) == in_n + 2 && r[0] == '"' && r[in_n + 1] == '"', "C09 a binary renders between double quotes (string form)");
        for (int i = 0; i < BN; i++) if ((unsigned)i < in_n) __CPROVER_assert(r[i + 1] == in_d[i], "C01 the digits of a binary render unchanged (string form)");
    }
}
