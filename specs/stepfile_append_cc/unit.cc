/* Unit stepfile_append_cc (CXX-FN): STEPfile::AppendFile, the driver behind ReadExchangeFile / AppendExchangeFile / ReadWorkingFile:
 * C14 the id offset is set before anything is read; C03 the verdict when pass 2 validates fewer instances than pass 1 created, when the
 * header, the DATA keyword or the end-of-file keyword is wrong; C15 the caller's encoding switch reaches pass 2 */
#define EXPDICT_H
#define VERIF_OSTREAM_NO_TEXT
#define _REGISTRY_H
#define private public
#define protected public
#include <iostream>
#include <fstream>
#include "cxx/verif_stream_model.h"
#include "clstepcore/sdai.h"
#include "repo/expdict_iface.h"
class Registry;
#include "cleditor/STEPfile.h"
#undef private
#undef protected
#include <stdio.h>
#include <string.h>
#include <stdlib.h>
extern "C" { int nondet_int(); }
/* ---- recording contract stubs ---- */
static int g_seq, g_incr_at, g_hdr_at, g_d1_at, g_d2_at; static int g_hdr_sev, g_find1, g_find2, g_total, g_valid, g_open_ok, g_in2_state; static bool g_d2_techcor; static int g_closed;
static istream *g_in2; static int g_kw_calls; static const char *g_kw[2];
void STEPfile::SetFileIdIncrement() { g_incr_at = ++g_seq; }
Severity STEPfile::ReadHeader(istream &) { g_hdr_at = ++g_seq; return (Severity)g_hdr_sev; }
int STEPfile::FindDataSection(istream &in) { return &in == g_in2 ? g_find2 : g_find1; }
int STEPfile::ReadData1(istream &) { g_d1_at = ++g_seq; return g_total; }
int STEPfile::ReadData2(istream &, bool techcor) { g_d2_at = ++g_seq; g_d2_techcor = techcor; return g_valid; }
istream *STEPfile::OpenInputFile(const std::string) { if (!g_open_ok) return 0; g_in2->_m_state = g_in2_state; return g_in2; }
void STEPfile::CloseInputFile(istream *) { g_closed++; }
void ReadTokenSeparator(istream &, std::string *) {}
const char *GetKeyword(istream &, const char *, ErrorDescriptor &) { const char *k = g_kw[g_kw_calls < 2 ? g_kw_calls : 1]; g_kw_calls++; return k; }
static int verif_sprintf(char *b, const char *, ...) { b[0] = 0; return 0; }
#define sprintf verif_sprintf
ErrorDescriptor::ErrorDescriptor(Severity s, DebugLevel) : _severity(s) {}
ErrorDescriptor::~ErrorDescriptor() {}
void ErrorDescriptor::AppendToUserMsg(const char *) {} void ErrorDescriptor::AppendToUserMsg(const char) {}
void ErrorDescriptor::AppendToDetailMsg(const char *) {} void ErrorDescriptor::AppendToDetailMsg(const char) {}
#include "append_extract.inc"
#undef sprintf
#include "verif.h"

extern "C" void h_AppendFile()
{
    IN(int, in_first); IN(int, in_hdr); IN(int, in_find1); IN(int, in_find2); IN(int, in_total); IN(int, in_valid); IN(int, in_open); IN(int, in_state2); IN(int, in_end); IN(int, in_techcor); IN(int, in_before);
    __CPROVER_assume(in_first >= 0 && in_first <= 2);
    __CPROVER_assume(in_hdr >= SEVERITY_MAX && in_hdr <= SEVERITY_NULL && in_before >= SEVERITY_MAX && in_before <= SEVERITY_NULL);
    __CPROVER_assume(in_total >= 0 && in_total <= 1000000 && in_valid >= 0 && in_valid <= in_total);
    __CPROVER_assume(in_state2 >= 0 && in_state2 <= 7);
    STEPfile *f = (STEPfile *)malloc(sizeof(STEPfile)); new (&f->_error) ErrorDescriptor((Severity)in_before); new (&f->_fileName) std::string("f"); new (&f->END_FILE_DELIM) std::string("END-ISO-10303-21;");
    f->_fileType = VERSION_CURRENT; f->_errorCount = 0; f->_warningCount = 0;
    g_kw[0] = in_first == 0 ? "ISO-10303-21" : in_first == 1 ? "STEP_WORKING_SESSION" : "GARBAGE"; g_kw[1] = in_end ? "END-ISO-10303-21" : "ENDSEC"; g_kw_calls = 0;
    g_seq = g_incr_at = g_hdr_at = g_d1_at = g_d2_at = 0; g_hdr_sev = in_hdr; g_find1 = in_find1 != 0; g_find2 = in_find2 != 0; g_total = in_total; g_valid = in_valid; g_open_ok = in_open != 0; g_in2_state = in_state2; g_closed = 0;
    istream in1, in2; in1._m_state = 0; in1._m_have = 0; in1._m_consumed = 0; in2._m_have = 0; in2._m_consumed = 0; g_in2 = &in2; g_stream_arbitrary = 1;
    Severity r = f->AppendFile(&in1, in_techcor != 0);
    __CPROVER_assert(g_incr_at == 1, "C14 the id offset for this read is set before anything of the file is read");
    __CPROVER_assert(f->_error.severity() <= (Severity)in_before, "a read never improves the file's recorded severity");
    if (in_first == 2) { __CPROVER_assert(r <= SEVERITY_INPUT_ERROR && g_hdr_at == 0, "C03 a file that does not start with the Part 21 / working-session keyword is an input error and nothing is read"); return; }
    if (in_hdr < SEVERITY_WARNING) { __CPROVER_assert(r == (Severity)in_hdr && g_d1_at == 0, "C03 a non-recoverable header error is the read's result and the data section is not read"); return; }
    if (!in_find1) { __CPROVER_assert(r <= SEVERITY_INPUT_ERROR && g_d1_at == 0, "C03 a missing DATA section is an input error"); return; }
    __CPROVER_assert(g_d1_at > g_hdr_at, "pass 1 follows the header");
    if (!in_open || in_state2 != 0 || !in_find2) { __CPROVER_assert(r <= SEVERITY_INPUT_ERROR && g_d2_at == 0, "C03 a file that cannot be re-read for pass 2 is an input error"); return; }
    __CPROVER_assert(g_d2_at > g_d1_at && g_d2_techcor == (in_techcor != 0), "C15 pass 2 follows pass 1 and gets the caller's encoding switch");
    if (in_valid != in_total) __CPROVER_assert(r <= SEVERITY_WARNING && f->_error.severity() <= SEVERITY_WARNING, "C03 fewer valid instances in pass 2 than instances created in pass 1 makes the read a warning or worse, in the result and in the file's descriptor");
    else __CPROVER_assert(r == SEVERITY_NULL || (r <= SEVERITY_WARNING && f->_error.severity() <= SEVERITY_WARNING), "a fully valid data section reads clean, or - when the stream ends early - with a warning that is also in the file's descriptor");
    __CPROVER_assert(g_closed == 1, "the second stream is closed once");
}
