/* Unit gen_typedesc_c (C extraction): which defined types the generator gives a file pair of their own (C17, generator side for
 * everything that is not a select: selects are unit selects_c) */
#include <stdio.h>
#include <stdlib.h>
#include <string.h>
#include <stdarg.h>
#include "verif.h"
#include "express/scope.h"   /* first inclusion must be the rewritten copy (union -> struct), see unit.json */
#include "classes.h"
#include "class_strings.h"
#include "genCxxFilenames.h"
#include "../c17_spec.h"
/* ---- models ---- */
static int verif_fprintf(FILE *f, const char *fmt, ...) { (void)f; (void)fmt; return 0; }
static int verif_sprintf(char *b, const char *fmt, ...) { (void)fmt; b[0] = 0; return 0; }
static char *verif_strncpy(char *d, const char *s, size_t n)
{
    __CPROVER_assert(__CPROVER_OBJECT_SIZE(d) - __CPROVER_POINTER_OFFSET(d) >= n, "strncpy destination holds n bytes");
    size_t i = 0; while (i < n && i < 4 && s[i]) { d[i] = s[i]; i++; } if (i < n) d[i] = 0; return d;
}
#undef fprintf
#define fprintf verif_fprintf
#define sprintf verif_sprintf
#define strncpy verif_strncpy
/* ---- contract stubs of the callees ---- */
static char g_nm[4] = "n";
const char *TypeDescriptorName(Type t) { (void)t; return g_nm; }
const char *GetTypeDescriptorName(Type t) { (void)t; return g_nm; }
const char *TYPEget_ctype(const Type t) { (void)t; return g_nm; }
const char *ClassName(const char *n) { (void)n; return g_nm; }
const char *EnumName(const char *n) { (void)n; return g_nm; }
const char *FundamentalType(const Type t, int f) { (void)t; (void)f; return g_nm; }
int isAggregateType(const Type t) { int k = TYPEget_body(t)->type; return k == aggregate_ || k == array_ || k == bag_ || k == set_ || k == list_; }
int isMultiDimAggregateType(const Type t) { (void)t; return nondet_int(); }
void printEnumCreateHdr(FILE *f, const Type t) { (void)f; (void)t; }
void printEnumCreateBody(FILE *f, const Type t) { (void)f; (void)t; }
void printEnumAggrCrHdr(FILE *f, const Type t) { (void)f; (void)t; }
void printEnumAggrCrBody(FILE *f, const Type t) { (void)f; (void)t; }
static int g_own_files; static Type g_own_files_of;
void TYPEPrint(const Type t, FILES *files, Schema s) { (void)files; (void)s; g_own_files++; g_own_files_of = t; }   /* creates type/<name>.h and .cc */
static int g_new_calls, g_init_calls;
void TYPEprint_new(const Type t, FILE *c, Schema s, bool w) { (void)t; (void)c; (void)s; (void)w; g_new_calls++; }
void TYPEprint_init(const Type t, FILE *h, FILE *i, Schema s) { (void)t; (void)h; (void)i; (void)s; g_init_calls++; }
#include "ancestor_extract.inc"
#include "typedesc_extract.inc"
#undef fprintf
#undef sprintf
#undef strncpy

static struct Scope_ ty[3], hd[2], sch; static struct TypeHead_ tt[3], ht[2]; static struct TypeBody_ tb[3], hb[2]; static char nmT[2] = "T";
/* C17, generator side: TYPEprint_descriptions creates a file pair of its own (TYPEPrint) for a defined type exactly when the type is
 * an enumeration that is not a rename - the same predicate the scanner's notGenerated() is held to (c17_spec.h) restricted to
 * non-selects; for every other kind of defined type (simple, aggregate of anything - named, unnamed, multi-dimensional -, rename)
 * no file is created */
void h_TYPEprint_descriptions(void)
{
    IN(int, in_kind); IN(int, in_renamed); IN(int, in_kind1); IN(int, in_kind2); IN(int, in_named1); IN(int, in_chain);
    __CPROVER_assume(c17_in_domain(in_kind) && c17_in_domain(in_kind1) && c17_in_domain(in_kind2));
    __CPROVER_assume(in_kind2 != aggregate_ && in_kind2 != array_ && in_kind2 != bag_ && in_kind2 != set_ && in_kind2 != list_);   /* nesting ends at depth 2 */
    int kinds[3] = { in_kind, in_kind1, in_kind2 };
    for (int k = 0; k < 3; k++) { ty[k].u.type = &tt[k]; tt[k].body = &tb[k]; tt[k].head = 0; tb[k].type = (enum type_enum)kinds[k]; tb[k].base = k < 2 ? &ty[k + 1] : 0; ty[k].superscope = &sch; ty[k].symbol.name = nmT; }
    if (!in_named1) ty[1].symbol.name = 0;     /* the element type of an aggregate may be an unnamed aggregate */
    sch.symbol.name = nmT;
    /* a rename: head -> (head ->) the original type, of the same kind */
    for (int k = 0; k < 2; k++) { hd[k].u.type = &ht[k]; ht[k].body = &hb[k]; hb[k].type = (enum type_enum)in_kind; ht[k].head = 0; hd[k].superscope = &sch; hd[k].symbol.name = nmT; }
    if (in_renamed) { tt[0].head = &hd[0]; if (in_chain) ht[0].head = &hd[1]; }
    static FILES files; g_own_files = 0;
    TYPEprint_descriptions(&ty[0], &files, &sch);
    __CPROVER_assert(in_kind == select_ || (g_own_files != 0) == c17_has_own_files(in_kind, in_renamed != 0),
                     "C17 the generator creates a file pair for a defined type exactly when the scanner's predicate lists one (enumeration, not a rename)");
    __CPROVER_assert(g_own_files <= 1 && (g_own_files == 0 || g_own_files_of == &ty[0]), "C17 at most one file pair, named after the type itself");
    __CPROVER_assert(in_kind != select_ || g_own_files == 0, "C17 a select's file pair is not created here (TYPEselect_print creates it, unit selects_c)");
}
