/* Unit rename_c (C extraction from express.c): resolution of one item of a USE FROM / REFERENCE FROM list (C04: an item that the other
 * schema does not have is an error; C20: the diagnostic is positioned at the item and quotes the item and the schema it was looked up in) */
#include <stdio.h>
#include <stdlib.h>
#include <string.h>
#include <stdarg.h>
#include "verif.h"
#include "express/scope.h"
#include "express/schema.h"
#include "express/express.h"
#include "express/resolve.h"
char DICT_type; int __SCOPE_search_id;
static int RENAME_search_id;      /* file-scope search mark of express.c (declaration outside the extracted functions) */
static long d_other, d_behind, d_uo, d_ub;
static Dictionary g_has[2] = { (Dictionary)&d_other, (Dictionary)&d_behind }; static int g_found_in; static long g_obj; static char g_obj_type;
void *DICTlookup(Dictionary d, char *name) { (void)name; if ((d == g_has[0] && g_found_in == 0) || (d == g_has[1] && g_found_in == 1)) { DICT_type = g_obj_type; return &g_obj; } return 0; }
static int g_rep_calls; static enum ErrorCode g_rep_code; static Symbol *g_rep_sym; static const char *g_rep_a1, *g_rep_a2;
void ERRORreport_with_symbol(enum ErrorCode code, Symbol *sym, ...)
{
    va_list ap; va_start(ap, sym); g_rep_calls++; g_rep_code = code; g_rep_sym = sym; g_rep_a1 = va_arg(ap, const char *);
    g_rep_a2 = code == REF_NONEXISTENT ? va_arg(ap, const char *) : 0; va_end(ap);
}
static int g_use_calls, g_ref_calls; static Schema g_def_schema; static Rename *g_def_rename;
void SCHEMAdefine_use(Schema s, Rename *r) { g_use_calls++; g_def_schema = s; g_def_rename = r; }
void SCHEMAdefine_reference(Schema s, Rename *r) { g_ref_calls++; g_def_schema = s; g_def_rename = r; }
#include "rename_extract.inc"

static struct Scope_ here, other, behind; static struct Schema_ so, sb; static struct Linked_List_ l_use_o, l_use_b, l_ul_o, l_ul_b; static struct Link_ m1, m2, m3, m4, k1;
static void rename_body(int in_chain)   /* 0: O alone; 1: O fully USEs B; 2: O and B fully USE each other; 3: O's USE list holds an undefined schema (null) */
{
    IN(int, in_where); IN(int, in_kind); IN(int, in_state);
    __CPROVER_assume(in_where >= -1 && in_where <= 1 && (in_kind == use || in_kind == ref) && in_state >= 0 && in_state <= 3);
    static char item[2] = "x", oname[2] = "O", hname[2] = "H", bname[2] = "B"; static Symbol old; static Rename r;
    here.symbol.name = hname; other.symbol.name = oname; behind.symbol.name = bname;
    other.u.schema = &so; behind.u.schema = &sb; other.symbol_table = (Dictionary)&d_other; behind.symbol_table = (Dictionary)&d_behind;
    so.usedict = (Dictionary)&d_uo; sb.usedict = (Dictionary)&d_ub;
    /* O fully USEs B when in_chain; no partial USE lists */
    l_use_o.mark = &m1; if (in_chain) { m1.next = &k1; m1.prev = &k1; k1.next = &m1; k1.prev = &m1; k1.data = in_chain == 3 ? (void *)0 : (void *)&behind; } else { m1.next = &m1; m1.prev = &m1; }
    l_use_b.mark = &m2; if (in_chain == 2) { static struct Link_ k2; m2.next = &k2; m2.prev = &k2; k2.next = &m2; k2.prev = &m2; k2.data = &other; } else { m2.next = &m2; m2.prev = &m2; }
    other.search_id = 0; behind.search_id = 0; __SCOPE_search_id = 5; l_ul_o.mark = &m3; m3.next = &m3; m3.prev = &m3; l_ul_b.mark = &m4; m4.next = &m4; m4.prev = &m4;
    so.use_schemas = &l_use_o; sb.use_schemas = &l_use_b; so.uselist = &l_ul_o; sb.uselist = &l_ul_b;
    g_found_in = in_where; g_obj_type = OBJ_ENTITY;
    old.name = item; old.line = 7; old.resolved = in_state == 1 ? RESOLVE_FAILED : in_state == 2 ? RESOLVE_IN_PROGRESS : 0;
    r.schema = &other; r.old = &old; r.nnew = 0; r.object = in_state == 3 ? (void *)&g_obj : (void *)0; r.rename_type = (enum rename_type)in_kind; r.type = 0;
    g_rep_calls = g_use_calls = g_ref_calls = 0;
    RENAMEresolve(&r, &here);
    if (in_state == 3 || in_state == 1) { __CPROVER_assert(g_rep_calls == 0 && g_use_calls + g_ref_calls == 0, "an item that is already resolved, or already failed, is left alone"); return; }
    if (in_state == 2) { __CPROVER_assert(g_rep_calls == 1 && g_rep_code == CIRCULAR_REFERENCE && g_rep_sym == &old && g_rep_a1 == item && (old.resolved & RESOLVE_FAILED), "C04/C20 an item whose resolution is already under way is a circular reference: reported once at the item, quoting it, and marked failed"); return; }
    int reachable = in_where == 0 || (in_where == 1 && (in_chain == 1 || in_chain == 2));
    if (reachable) {
        __CPROVER_assert(g_rep_calls == 0 && r.object == &g_obj && r.type == OBJ_ENTITY, "an item that the other schema declares (or fully USEs from a third schema) is resolved silently to that object");
        __CPROVER_assert((in_kind == use ? g_use_calls : g_ref_calls) == 1 && (in_kind == use ? g_ref_calls : g_use_calls) == 0 && g_def_schema == &here && g_def_rename == &r, "the item is entered into the interfacing schema as what it is: USEd or REFERENCEd");
    } else {
        __CPROVER_assert(g_rep_calls == 1 && g_rep_code == REF_NONEXISTENT && g_rep_sym == &old && g_rep_a1 == item && g_rep_a2 == oname, "C04/C20 an item that the other schema does not have is reported once, at the item, quoting the item and the schema it was looked up in");
        __CPROVER_assert((old.resolved & RESOLVE_FAILED) && r.object == 0 && g_use_calls + g_ref_calls == 0, "C04 the item is marked failed and nothing is interfaced");
    }
    __CPROVER_assert(!(old.resolved & RESOLVE_IN_PROGRESS), "the in-progress mark is removed");
}

void h_RENAMEresolve(void) { rename_body(0); }
void h_RENAMEresolve_chain(void) { rename_body(1); }
void h_RENAMEresolve_cycle(void) { rename_body(2); }     /* C06: schemas that USE each other: the search for a name that neither has must end */
void h_RENAMEresolve_undefined_schema(void) { rename_body(3); }   /* C06: a USE list entry for an undefined schema is null */
