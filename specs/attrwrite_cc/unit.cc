/* Unit attrwrite_cc (CXX-FN): the attribute value writer STEPattribute::STEPwrite / is_null extracted from STEPattribute.cc */
#define instmgr_h
#define EXPDICT_H
#define private public
#define protected public
#include <iostream>
#include <sstream>
#include "cxx/verif_stream_model.h"
#include "clstepcore/sdai.h"
#include "repo/expdict_iface.h"
#include "clstepcore/STEPattribute.h"
#include "clstepcore/STEPaggregate.h"
#include "clstepcore/STEPundefined.h"
#include "clstepcore/read_func.h"
#include <string.h>
#include <stdlib.h>
static PrimitiveType g_base;
PrimitiveType AttrDescriptor::NonRefType() const { return g_base; }
/* ---- recording contract stubs of the value writers: each writes the value's own token; here it records who was asked ---- */
enum { W_NONE, W_REAL, W_REF, W_STRING, W_BINARY, W_AGGR, W_ENUM, W_SELECT, W_UNDEF };
static int g_writer, g_writer_calls, g_err_calls; static const void *g_writer_obj; static const char *g_writer_sch;
static int g_value_null;      /* ghost: what the value's own null test answers */
void WriteReal(SDAI_Real, ostream &) { g_writer = W_REAL; g_writer_calls++; }
void SDAI_Application_instance::STEPwrite_reference(ostream &) { g_writer = W_REF; g_writer_obj = this; g_writer_calls++; }
void SDAI_String::STEPwrite(ostream &) const { g_writer = W_STRING; g_writer_obj = this; g_writer_calls++; }
void SDAI_Binary::STEPwrite(ostream &) const { g_writer = W_BINARY; g_writer_obj = this; g_writer_calls++; }
void STEPaggregate::STEPwrite(ostream &, const char *s) const { g_writer = W_AGGR; g_writer_obj = this; g_writer_sch = s; g_writer_calls++; }
void SDAI_Enum::STEPwrite(ostream &) const { g_writer = W_ENUM; g_writer_obj = this; g_writer_calls++; }
void SDAI_Select::STEPwrite(ostream &, const char *s) const { g_writer = W_SELECT; g_writer_obj = this; g_writer_sch = s; g_writer_calls++; }
void SCLundefined::STEPwrite(ostream &) { g_writer = W_UNDEF; g_writer_obj = this; g_writer_calls++; }
static bool verif_enum_is_null(const SDAI_Enum *) { return g_value_null != 0; }      /* SDAI_Enum::is_null() is inline over the virtual exists() */
bool SDAI_Select::is_null() { return g_value_null != 0; }
bool SCLundefined::is_null() { return g_value_null != 0; }
bool SDAI_Binary::empty() const { return g_value_null != 0; }
bool SDAI_String::operator==(const char *s) const { return s[0] == 0 && g_value_null; }
static void verif_STEPwriteError(STEPattribute *, ostream &out, unsigned int, const char *) { out << "$"; g_err_calls++; }
#include "attrwrite_extract.inc"
#undef private
#undef protected
#include "src/clstepcore/sdai.cc"   /* the real null sentinels (LONG_MAX, FLT_MIN) */
#include "verif.h"

/* C01: the writer emits `*` exactly for a derived attribute, `$` exactly for an unset value, and otherwise hands the value
 * - once - to the writer of its own kind (every base kind the dictionary can report) */
extern "C" void h_attr_write()
{
    IN(int, in_base); IN(int, in_derived); IN(int, in_null); IN(long, in_i); IN(double, in_r);
    static const PrimitiveType kinds[] = { INTEGER_TYPE, REAL_TYPE, NUMBER_TYPE, STRING_TYPE, BINARY_TYPE, BOOLEAN_TYPE, LOGICAL_TYPE, ENUM_TYPE,
                                           AGGREGATE_TYPE, ARRAY_TYPE, BAG_TYPE, SET_TYPE, LIST_TYPE, ENTITY_TYPE, SELECT_TYPE, UNKNOWN_TYPE };
    __CPROVER_assume(0 <= in_base && in_base < 16);
    g_base = kinds[in_base];
    STEPattribute *a = (STEPattribute *)malloc(sizeof(STEPattribute)); AttrDescriptor *ad = (AttrDescriptor *)malloc(sizeof(AttrDescriptor));
    a->_redefAttr = 0; a->_derive = in_derived != 0; a->aDesc = ad;
    SDAI_Integer iv = in_null ? S_INT_NULL : in_i; __CPROVER_assume(in_null || in_i != S_INT_NULL);
    SDAI_Real rv = in_null ? (g_base == NUMBER_TYPE ? S_NUMBER_NULL : S_REAL_NULL) : in_r; __CPROVER_assume(in_null || in_r != S_REAL_NULL);   /* every double but the sentinel, negative numbers, zero, infinities and NaN included */
    void *obj = malloc(64); SDAI_Application_instance *inst = in_null ? S_ENTITY_NULL : (SDAI_Application_instance *)malloc(sizeof(SDAI_Application_instance));
    if (g_base == INTEGER_TYPE) a->ptr.i = &iv; else if (g_base == REAL_TYPE || g_base == NUMBER_TYPE) a->ptr.r = &rv;
    else if (g_base == ENTITY_TYPE) a->ptr.c = &inst; else a->ptr.p = obj;
    if (g_base == AGGREGATE_TYPE || g_base == ARRAY_TYPE || g_base == BAG_TYPE || g_base == SET_TYPE || g_base == LIST_TYPE) ((STEPaggregate *)obj)->_null = in_null != 0;
    g_value_null = in_null != 0; g_writer = W_NONE; g_writer_calls = g_err_calls = 0;
    ostream out; out._m_written = 0;
    a->STEPattribute::STEPwrite(out, "sch");
    if (in_derived) { __CPROVER_assert(out._m_written == 1 && out._m_logc[0] == 'S' && !strcmp(out._m_logt[0], "*") && g_writer_calls == 0, "C01 a derived attribute is written as * and nothing else"); return; }
    if (in_null) { __CPROVER_assert(out._m_written == 1 && out._m_logc[0] == 'S' && !strcmp(out._m_logt[0], "$") && g_writer_calls == 0 && g_err_calls == 0, "C01 an unset attribute value of any kind is written as $ and nothing else"); return; }
    __CPROVER_assert(g_err_calls == 0, "a set value is never written as an error placeholder");
    if (g_base == INTEGER_TYPE) __CPROVER_assert(out._m_written == 1 && g_writer_calls == 0, "C01 an INTEGER value is written once, as a number");
    else {
        int want = g_base == REAL_TYPE || g_base == NUMBER_TYPE ? W_REAL : g_base == STRING_TYPE ? W_STRING : g_base == BINARY_TYPE ? W_BINARY :
                   g_base == ENTITY_TYPE ? W_REF : g_base == SELECT_TYPE ? W_SELECT : g_base == UNKNOWN_TYPE ? W_UNDEF :
                   (g_base == BOOLEAN_TYPE || g_base == LOGICAL_TYPE || g_base == ENUM_TYPE) ? W_ENUM : W_AGGR;
        __CPROVER_assert(g_writer_calls == 1 && g_writer == want && out._m_written == 0, "C01 a set value is handed exactly once to the writer of its own kind, with nothing written around it");
        if (want != W_REAL) __CPROVER_assert(g_writer_obj == (g_base == ENTITY_TYPE ? (const void *)inst : (const void *)obj), "C01 the writer is applied to the attribute's own value object");
        if (want == W_AGGR || want == W_SELECT) __CPROVER_assert(g_writer_sch != 0 && !strcmp(g_writer_sch, "sch"), "the current schema reaches the aggregate / select writers");
    }
}

/* C01: an attribute that a subtype redeclares (explicitly, with a narrower type) keeps its value in the redeclaring attribute:
 * that is where STEPattribute::STEPread / StrToVal / set_null / is_null go first.  The writer must take it from there too,
 * whether or not the generator also flagged the inherited attribute as derived - otherwise the value read is written back as * */
extern "C" void h_attr_write_redeclared()
{
    IN(int, in_derived_flag); IN(long, in_i);
    __CPROVER_assume(in_i != S_INT_NULL);
    STEPattribute *a = (STEPattribute *)malloc(sizeof(STEPattribute)); AttrDescriptor *ad = (AttrDescriptor *)malloc(sizeof(AttrDescriptor));
    STEPattribute *r = (STEPattribute *)malloc(sizeof(STEPattribute)); AttrDescriptor *rd = (AttrDescriptor *)malloc(sizeof(AttrDescriptor));
    SDAI_Integer iv = in_i;
    g_base = INTEGER_TYPE;
    a->_redefAttr = r; a->_derive = in_derived_flag != 0; a->aDesc = ad; a->ptr.p = 0;
    r->_redefAttr = 0; r->_derive = false; r->aDesc = rd; r->ptr.i = &iv;
    g_value_null = 0; g_writer = W_NONE; g_writer_calls = g_err_calls = 0;
    ostream out; out._m_written = 0; out._m_logc[0] = 0; out._m_logt[0][0] = 0;      /* numbers are counted, not logged: the first log slot stays as initialised here */
    a->STEPattribute::STEPwrite(out, "sch");
    __CPROVER_assert(out._m_written == 1 && !(out._m_logc[0] == 'S' && out._m_logt[0][0] == '*'), "C01 the value of an attribute redeclared by a subtype is written (from the redeclaring attribute, where the reader stored it), not replaced by *");
    __CPROVER_assert(a->STEPattribute::is_null() == false, "the null test follows the redeclaring attribute");
}
