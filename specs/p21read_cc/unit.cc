/* Unit p21read_cc (CXX-FN): the reference reader tool's main(): which mode it reads in (C15) and what exit status it ends with (C03) */
#define EXPDICT_H
#define _REGISTRY_H
#define instmgr_h
#define private public
#define protected public
#include <iostream>
#include <fstream>
#include "cxx/verif_stream_model.h"
#include "clstepcore/sdai.h"
#include "repo/expdict_iface.h"
class Registry { public: Registry(void (*)(Registry &)) {} };
#include "clstepcore/mgrnode.h"
class InstMgr { public: InstMgr() {} };   /* a plain stub class: cbmc's C++ front end recurses on the virtual destructor of the real one */
#include "cleditor/STEPfile.h"
#undef private
#undef protected
#include <stdio.h>
#include <string.h>
#include <stdlib.h>
extern "C" { int nondet_int(); }
const char *strchr(const char *s, int c) { for (int i = 0; i < 8; i++, s++) { if (*s == (char)c) return s; if (*s == 0) return 0; } return 0; }
char *strchr(char *s, int c) { for (int i = 0; i < 8; i++, s++) { if (*s == (char)c) return s; if (*s == 0) return 0; } return 0; }
/* ---- stubs ---- */
void SchemaInit(Registry &) {}
class benchmark { public: benchmark(const char *) {} void stop() {} void out() {} };
static int g_exit_code = -1;
static void printUse(const char *) { __CPROVER_assume(0); }       /* usage error: the path ends (not part of the obligations) */
static void printVersion(const char *) { __CPROVER_assume(0); }
void checkSchemaName(Registry &, STEPfile &, bool) {}
static int g_ctor_calls; static bool g_ctor_strict; static int g_read_calls, g_write_calls; static int g_read_sev, g_write_sev; static const char *g_read_name;
static ErrorDescriptor *g_file_err;
STEPfile::STEPfile(Registry &r, InstMgr &i, const std::string, bool strict) : _instances(i), _reg(r) { g_ctor_calls++; g_ctor_strict = strict; _strict = strict; g_file_err = &_error; }
STEPfile::~STEPfile() {}
Severity STEPfile::ReadExchangeFile(const std::string f, bool) { g_read_calls++; _error.severity((Severity)g_read_sev); return _error.severity(); }
Severity STEPfile::WriteExchangeFile(const std::string, int, int, int) { g_write_calls++; _error.severity((Severity)g_write_sev); return _error.severity(); }
void ErrorDescriptor::PrintContents(ostream &) const {}
ErrorDescriptor::ErrorDescriptor(Severity s, DebugLevel) : _severity(s) {}
ErrorDescriptor::~ErrorDescriptor() {}
static char verif_lit_in[] = "testfile.step", verif_lit_out[] = "file.out";
char *sc_optarg; int sc_optind = 0;     /* the tool's two option globals (declarations outside the extracted functions) */
#include "p21read_extract.inc"
#include "verif.h"

/* C15: the tool reads leniently unless -s is given, and exactly then strictly; C03: it exits non-zero whenever the read (or the write)
 * ended with a severity worse than a user message */
extern "C" void h_p21read_main()
{
    IN(int, in_opt); IN(int, in_opt2); IN(int, in_rsev); IN(int, in_wsev); IN(int, in_out);
    __CPROVER_assume(in_opt >= 0 && in_opt <= 3 && in_opt2 >= 0 && in_opt2 <= 3);
    __CPROVER_assume(in_rsev >= SEVERITY_MAX && in_rsev <= SEVERITY_NULL && in_wsev >= SEVERITY_MAX && in_wsev <= SEVERITY_NULL);
    static char a0[8], f[8], o[8], optw[4];
    a0[0] = 'p'; a0[1] = 0; f[0] = 'i'; f[1] = 0; o[0] = 'o'; o[1] = 0;
    const char l1 = in_opt == 1 ? 'i' : in_opt == 2 ? 't' : 's', l2 = in_opt2 == 1 ? 'i' : in_opt2 == 2 ? 't' : in_opt2 == 3 ? 's' : 0;
    optw[0] = '-'; optw[1] = l1; optw[2] = l2; optw[3] = 0;
    char *argv[5]; int argc;
    if (in_opt) { argv[0] = a0; argv[1] = optw; argv[2] = f; argv[3] = in_out ? o : (char *)0; argv[4] = 0; argc = in_out ? 4 : 3; }
    else { argv[0] = a0; argv[1] = f; argv[2] = in_out ? o : (char *)0; argv[3] = 0; argv[4] = 0; argc = in_out ? 3 : 2; }
    sc_optind = 0; g_ctor_calls = 0; g_read_calls = 0; g_write_calls = 0; g_read_sev = in_rsev; g_write_sev = in_wsev; g_exit_code = -1;
    int rc = p21read_main(argc, argv);
    int status = g_exit_code >= 0 ? g_exit_code : 0;     /* falling off the end of main is status 0 */
    int want_strict = (in_opt == 3) || (in_opt && in_opt2 == 3);
    __CPROVER_assert(g_ctor_calls == 1 && g_read_calls == 1, "the tool reads one file with one reader");
    __CPROVER_assert(g_ctor_strict == (want_strict != 0), "C15 the reference tool reads leniently by default and strictly exactly when -s is given");
    if (in_rsev < SEVERITY_USERMSG) __CPROVER_assert(status != 0, "C03 a read that ended worse than a user message makes the tool exit non-zero");
    else if (in_wsev < SEVERITY_USERMSG) __CPROVER_assert(status != 0, "a write that ended worse than a user message makes the tool exit non-zero");
    else __CPROVER_assert(status == 0 && g_write_calls == 1, "a clean read is followed by the write and status 0");
}
