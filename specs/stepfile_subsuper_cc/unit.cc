/* Unit stepfile_subsuper_cc: the translation unit of stepfile_cc plus the extracted STEPfile::CreateSubSuperInstance */
#define VERIF_WITH_SUBSUPER
#include "../stepfile_cc/unit.cc"
