/* Unit exppp_out_c: the output core of the pretty printer (raw, wrap, exp_output) extracted from src/exppp/exppp.c */
#include <stdio.h>
#include <stdlib.h>
#include <string.h>
#include <stdarg.h>
#include <stdbool.h>
#include "verif.h"
#include "pp.h"
#define VERIF_OUTBUF 16
#define VERIF_LINEBUF 8
#ifdef VERIF_TIER_THOROUGH
#define TN 40
#else
#define TN 24
#endif
int curpos, indent2, exppp_linelength; Symbol error_sym; FILE *exppp_fp; char *exppp_buf, *exppp_bufp; unsigned int exppp_buflen;
static bool printedSpaceLast;
/* MODEL of malloc/free for the two formatting buffers (cbmc runs out of memory on wrap() with symbolic-size heap objects):
 * exact-size slices are not available, so each block is a fixed 64-byte object and its requested size is ghost state that the
 * libc models above check their writes against (the functions under contract write to these blocks only through those models) */
static char g_pool[2][64]; static size_t g_pool_size[2]; static int g_pool_used[2];
static size_t verif_block_size(const void *p) { return p == g_pool[0] ? g_pool_size[0] : p == g_pool[1] ? g_pool_size[1] : (size_t)-1; }
static void *verif_malloc(size_t n)
{
    int k = !g_pool_used[0] ? 0 : 1;
    __CPROVER_assert(!g_pool_used[k] && n <= 64, "malloc model: at most two live blocks of <= 64 bytes");
    g_pool_used[k] = 1; g_pool_size[k] = n; return g_pool[k];
}
static void verif_free(void *p)
{
    __CPROVER_assert((p == g_pool[0] && g_pool_used[0]) || (p == g_pool[1] && g_pool_used[1]), "free: a live heap block, freed once");
    if (p == g_pool[0]) g_pool_used[0] = 0; else g_pool_used[1] = 0;
}
/* ---- libc models (assumed ISO semantics), see unit.json ---- */
static char g_text[TN + 1]; static int g_text_len;                 /* the formatted text of this call: harness-chosen */
static int verif_vsnprintf(char *s, size_t n, const char *fmt, va_list ap)
{
    (void)fmt; (void)ap;
    __CPROVER_assert(n == 0 || (__CPROVER_w_ok(s, n) && n <= verif_block_size(s)), "vsnprintf: the destination holds the n bytes it is told");
    if (n > 0) { size_t k = (size_t)g_text_len < n - 1 ? (size_t)g_text_len : n - 1; for (size_t i = 0; i < TN; i++) if (i < k) s[i] = g_text[i]; s[k] = 0; }
    return g_text_len;
}
static int verif_vsprintf(char *s, const char *fmt, va_list ap)
{
    (void)fmt; (void)ap;
    for (int i = 0; i < TN; i++) if (i < g_text_len) s[i] = g_text[i];
    s[g_text_len] = 0;
    return g_text_len;
}
static int verif_sprintf(char *s, const char *fmt, ...)           /* only use in these functions: sprintf( line, "\n%*s", indent2, "" ) */
{
    va_list ap; va_start(ap, fmt); int w = va_arg(ap, int); va_end(ap);
    __CPROVER_assert(!strcmp(fmt, "\n%*s"), "sprintf model: the one format used");
    __CPROVER_assert((size_t)(w > 0 ? w : 0) + 2 <= verif_block_size(s), "sprintf: the continuation-indent line fits its heap block");
    s[0] = '\n'; for (int i = 0; i < 14; i++) if (i < w) s[1 + i] = ' '; s[1 + (w > 0 ? w : 0)] = 0;
    return 1 + (w > 0 ? w : 0);
}
#define LOGN (TN + 16)
static size_t g_written; static char g_log[LOGN]; static size_t g_last_len, g_last_at; static int g_writes; static size_t g_first_len;
static size_t verif_fwrite(const void *p, size_t sz, size_t n, FILE *fp)
{
    (void)fp;
    __CPROVER_assert(sz == 1 && (n == 0 || __CPROVER_r_ok(p, n)), "fwrite: the bytes handed to the output file are readable");
    if (g_writes == 0) g_first_len = n;
    g_last_at = g_written; g_last_len = n;
    for (size_t i = 0; i < LOGN; i++) if (i < n && g_written + i < LOGN) g_log[g_written + i] = ((const char *)p)[i];
    g_writes++; g_written += n;
    return n;
}
#ifdef VERIF_POOL_MALLOC
#define malloc verif_malloc
#define free verif_free
#endif
#define vsnprintf verif_vsnprintf
#define vsprintf verif_vsprintf
#define sprintf verif_sprintf
#define fwrite verif_fwrite
#include "out_extract.inc"
#undef vsnprintf
#undef malloc
#undef free
#undef vsprintf
#undef sprintf
#undef fwrite

static void setup_text(void)
{
    IN_ARR(char, in_text, TN); IN(int, in_len);
    __CPROVER_assume(in_len >= 1 && in_len <= TN);      /* precondition: a non-empty formatted text (exp_output reads buf[len-1]; see DESIGN, latent defects) */
    for (int i = 0; i < TN; i++) { if (i < in_len) __CPROVER_assume(in_text[i] != 0); g_text[i] = i < in_len ? in_text[i] : 0; }
    g_text[TN] = 0; g_text_len = in_len;
    exppp_fp = 0; exppp_buf = 0; g_written = 0; g_writes = 0; error_sym.line = 1;
}

/* C06/C07: raw() hands the whole formatted text, of any length, to the output and keeps the column count right */
void h_raw(void)
{
    IN(int, in_curpos); IN_BOOL(in_space);
    setup_text();
    __CPROVER_assume(in_curpos >= 0 && in_curpos <= 1000);
    curpos = in_curpos; printedSpaceLast = in_space;
    raw("%s", "x");
    __CPROVER_assert(g_writes == 1 && g_written == (size_t)g_text_len, "C07 raw() writes the formatted text in full, whatever its length (nothing truncated)");
    int same = 1; for (int i = 0; i < TN; i++) if (i < g_text_len && g_log[i] != g_text[i]) same = 0;
    __CPROVER_assert(same, "C07 the bytes written by raw() are the formatted text");
    int lastnl = -1; for (int i = 0; i < TN; i++) if (i < g_text_len && g_text[i] == '\n') lastnl = i;
    __CPROVER_assert(curpos == (lastnl < 0 ? in_curpos + g_text_len : g_text_len - lastnl), "C07 the column after raw() counts the characters since the last newline");
}

/* C06/C07: wrap() writes the text in full except leading blanks, on a fresh continuation line when it does not fit */
void h_wrap(void)
{
    IN(int, in_curpos); IN(int, in_indent); IN(int, in_linelen); IN_BOOL(in_space);
    setup_text();
    __CPROVER_assume(in_curpos >= 0 && in_curpos <= 60 && in_indent >= 0 && in_indent <= 12 && in_linelen >= 1 && in_linelen <= 60);
    curpos = in_curpos; indent2 = in_indent; exppp_linelength = in_linelen; printedSpaceLast = in_space;
    wrap("%s", "x");
    __CPROVER_assert(g_writes == 1 || g_writes == 2, "wrap() writes the text, possibly after one line break");
    /* the text written last is a suffix of the formatted text that drops only leading blanks */
    size_t dropped = (size_t)g_text_len - g_last_len;
    __CPROVER_assert(g_last_len <= (size_t)g_text_len, "C07 wrap() never writes more than the formatted text");
    int blanks = 1; for (int i = 0; i < TN; i++) if ((size_t)i < dropped && g_text[i] != ' ') blanks = 0;
    __CPROVER_assert(blanks, "C07 wrap() drops nothing but leading blanks of the formatted text (nothing truncated, whatever its length)");
    int same = 1; for (int i = 0; i < TN; i++) if ((size_t)i < g_last_len && g_log[g_last_at + i] != g_text[dropped + i]) same = 0;
    __CPROVER_assert(same, "C07 the bytes written by wrap() are the formatted text");
    if (g_writes == 2) {
        __CPROVER_assert(g_first_len == (size_t)in_indent + 1 && g_log[0] == '\n', "C07 a continuation line starts with a newline and the continuation indent");
    }
}
