/* C07: operator expressions are printed with the operator's own token, operands in source order, and an operand
 * that is itself an operator expression stays inside parentheses unless the operator is associative with it */
static int streq(const char *a, const char *b) { int i; for (i = 0; i < 8; i++) { if (a[i] != b[i]) return 0; if (!a[i]) return 1; } return 0; }

/* spec: EXPRESS tokens of the operators (ISO 10303-11 clause 12) */
static const char *spec_token(int op)
{
    switch (op) {
    case OP_AND: return "AND"; case OP_ANDOR: return "ANDOR"; case OP_OR: return "OR"; case OP_XOR: return "XOR";
    case OP_CONCAT: return "||"; case OP_EQUAL: return "="; case OP_NOT_EQUAL: return "<>"; case OP_PLUS: return "+"; case OP_TIMES: return "*";
    case OP_EXP: return "**"; case OP_GREATER_EQUAL: return ">="; case OP_GREATER_THAN: return ">"; case OP_LESS_EQUAL: return "<="; case OP_LESS_THAN: return "<";
    case OP_IN: return "IN"; case OP_INST_EQUAL: return ":=:"; case OP_INST_NOT_EQUAL: return ":<>:"; case OP_LIKE: return "LIKE"; case OP_MOD: return "MOD";
    case OP_REAL_DIV: return "/"; case OP_DIV: return "DIV"; case OP_MINUS: return "-"; case OP_DOT: return "."; case OP_GROUP: return "\\";
    default: return 0; }
}
static struct Scope_ t_op, t_id; static struct TypeHead_ th_op, th_id; static struct TypeBody_ tb_op, tb_id;
static void mk_types(void)
{
    t_op.u.type = &th_op; th_op.body = &tb_op; tb_op.type = op_;
    t_id.u.type = &th_id; th_id.body = &tb_id; tb_id.type = identifier_;
    for (int k = 0; k < OP_LAST; k++) EXPop_table[k].token = (char *)spec_token(k);   /* as EXPop_init fills it for the tabled operators */
}
static char n_a[2] = "a", n_b[2] = "b";

/* -(-a), NOT(NOT a), -(NOT a), NOT(-a): the inner operator expression must stay parenthesised */
/* EXPR__out (the operand printer, recursive) is cut from these harnesses: operands contribute nothing to the transcript,
   which therefore shows exactly what the operator printers emit around them */
static void check_unary(int op, int paren, int prev)
{
    static struct Expression_ e1, ea;
    ea.type = &t_id; ea.symbol.name = n_a;
    e1.type = &t_op; e1.e.op_code = op; e1.e.op1 = &ea;
    g_tr_n = 0;
    EXPRop__out(&e1.e, paren, (unsigned)prev);
    int i = 0;
    if (paren) { __CPROVER_assert(g_tr_n > 0 && streq(g_tr[0], "( "), "C07 a unary operator expression used as an operand is opened with a parenthesis, whatever the enclosing operator (so that - - never fuses into a remark)"); i = 1; }
    __CPROVER_assert(i < g_tr_n && streq(g_tr[i], op == OP_NEGATE ? "-" : "NOT "), "C07 a unary operator is printed with its own token");
    if (paren) __CPROVER_assert(g_tr_n == 3 && streq(g_tr[2], " )"), "C07 the parenthesis around a unary operator expression is closed");
    else __CPROVER_assert(g_tr_n == 1, "C07 a top-level unary operator expression prints nothing but its token and operand");
}

/* operator codes are enumerated concretely (symbolic codes make cbmc explore every arm of the printers' switches at
   every recursion level) */
void h_unary_nesting(void)
{
    mk_types();
    for (int prev = 0; prev <= OP_UNKNOWN; prev++) { check_unary(OP_NEGATE, 1, prev); check_unary(OP_NOT, 1, prev); }
    check_unary(OP_NEGATE, 0, OP_UNKNOWN); check_unary(OP_NOT, 0, OP_UNKNOWN);
}

/* a <op> b for every binary operator: own token, operands in source order; as an operand of another operator it is parenthesised */
static void check_binary(int in_op, int in_paren, int in_prev)
{
    static struct Expression_ e1, ea, eb;
    if (spec_token(in_op) == 0) return;
    mk_types();
    ea.type = &t_id; ea.symbol.name = n_a; eb.type = &t_id; eb.symbol.name = n_b;
    e1.type = &t_op; e1.e.op_code = in_op; e1.e.op1 = &ea; e1.e.op2 = &eb;
    g_tr_n = 0;
    EXPRop__out(&e1.e, in_paren != 0, (unsigned)in_prev);
    /* pieces around the (cut) operands: [ "( " ] [ " " ] token [ " " ] [ " )" ] */
    int i = 0;
    int opened = g_tr_n > 0 && streq(g_tr[0], "( ");
    if (opened) i++;
    if (i < g_tr_n && streq(g_tr[i], " ")) i++;
    __CPROVER_assert(i < g_tr_n && streq(g_tr[i], spec_token(in_op)), "C07 a binary operator is printed with its own EXPRESS token");
    i++; if (i < g_tr_n && streq(g_tr[i], " ")) i++;
    int closed = i < g_tr_n && streq(g_tr[i], " )");
    __CPROVER_assert(opened == closed && g_tr_n == i + closed, "C07 parentheses are balanced and nothing else is printed");
    /* parentheses may be dropped only for component reference (. and \) or inside the same associative operator */
    int assoc = in_op == OP_AND || in_op == OP_OR || in_op == OP_XOR || in_op == OP_ANDOR || in_op == OP_PLUS || in_op == OP_TIMES || in_op == OP_CONCAT;
    if (in_paren && !(in_op == OP_DOT || in_op == OP_GROUP) && !(assoc && in_prev == in_op))
        __CPROVER_assert(opened, "C07 a binary operator expression used as an operand keeps its parentheses unless it sits inside the same associative operator");
}

void h_binary_ops(void)
{
    mk_types();
    for (int op = 0; op < OP_LAST; op++) {
        check_binary(op, 0, OP_UNKNOWN);
        check_binary(op, 1, OP_UNKNOWN);   /* operand of a different operator */
        check_binary(op, 1, op);           /* operand of the same operator */
    }
}
