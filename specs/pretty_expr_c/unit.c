/* Unit pretty_expr_c: src/exppp/pretty_expr.c compiled unmodified (Route C); wrap/raw are recording stubs */
#include <stdio.h>
#include <stdlib.h>
#include <string.h>
#include <stdarg.h>
#include <stdbool.h>
#include "verif.h"
#include "express/scope.h"   /* first inclusion must be the rewritten copy (union -> struct), see unit.json */
#include "src/exppp/pretty_expr.c"

/* ---- ghost transcript of emitted pieces ---- */
#define TR_MAX 24
const char *g_tr[TR_MAX]; int g_tr_raw[TR_MAX]; int g_tr_n;
static void tr_add(const char *fmt, va_list ap, int is_raw)
{
    const char *piece = fmt;
    if (fmt[0] == '%' && fmt[1] == 's' && fmt[2] == 0) piece = va_arg(ap, const char *);
    if (g_tr_n < TR_MAX) { g_tr[g_tr_n] = piece; g_tr_raw[g_tr_n] = is_raw; }
    g_tr_n++;
}
void wrap(const char *fmt, ...) { va_list ap; va_start(ap, fmt); tr_add(fmt, ap, 0); va_end(ap); }
void raw(const char *fmt, ...) { va_list ap; va_start(ap, fmt); tr_add(fmt, ap, 1); va_end(ap); }
/* globals of exppp.c / express that pretty_expr.c refers to */
int indent2, exppp_linelength, exppp_continuation_indent;
struct EXPop_entry EXPop_table[OP_LAST];
Expression LITERAL_E, LITERAL_INFINITY, LITERAL_PI, LITERAL_ZERO, LITERAL_ONE;
#include "harnesses.c"
