/* Unit error_c: src/express/error.c compiled unmodified (Route C).
 * Output and process-exit functions are renamed to recording stubs (macro rename only);
 * contracts are attached by re-declaration after the real definitions. */
#include <stdio.h>
#include <stdlib.h>
#include <stdarg.h>
#include <string.h>
#include <setjmp.h>
#include <signal.h>
#include <stdbool.h>
#include "verif.h"

/* ---- ghost state (never written by repo code) ---- */
int g_exited;            /* 1 once exit()/abort() has been reached */
int g_exit_status;       /* status passed to exit(), -1 for abort() */
unsigned g_fmt_calls;    /* number of vfprintf/vsnprintf-level formatting calls */
const char *g_fmt_last;  /* format of the last one */
const void *g_va_first;  /* first variadic argument consumed by the message formatter */
const void *g_va_second; /* second one */
unsigned g_want_va;      /* which formatting call (1-based) is the message one; 0 = record nothing */
const char *g_file_printed; /* the %s handed to the "file:line:" prefix */
int g_line_printed;
int g_prefix_errnum;

static int verif_fprintf(FILE *f, const char *fmt, ...);
static int verif_vfprintf(FILE *f, const char *fmt, va_list ap);
static int verif_vsnprintf(char *s, size_t n, const char *fmt, va_list ap);
static int verif_fputc(int c, FILE *f);
static void verif_exit(int status);
static void verif_abort(void);
static int verif_out(void) { return 0; }

#ifdef VERIF_DFCC_SAFE
/* goto-instrument --dfcc appends its write-set parameter after the fixed parameters, which
 * corrupts the argument list of variadic callees that have a body; in DFCC units the output
 * calls are therefore reduced to an argument-less stub (arguments are side-effect free). */
#define fprintf(...) verif_out()
#define vfprintf(...) verif_out()
#define fputc(...) verif_out()
#else
#define fprintf verif_fprintf
#define vfprintf verif_vfprintf
#define fputc verif_fputc
#endif
#define vsnprintf verif_vsnprintf
#ifdef VERIF_MODEL_FLUSH
/* calls `ERROR_flush_message_buffer()` go to a model of its contract, the definition
 * `ERROR_flush_message_buffer( void )` is kept under the name ERROR_flush_message_buffer_real
 * (macro dispatch on the argument list; no text of error.c is changed) */
static void verif_flush_model(void);
#define ERROR_flush_message_buffer(...) VERIF_FLUSH_##__VA_ARGS__
#define VERIF_FLUSH_void ERROR_flush_message_buffer_real(void)
#define VERIF_FLUSH_ verif_flush_model()
#endif
#define exit verif_exit
#define abort verif_abort
#include "src/express/error.c"
#undef fprintf
#undef vfprintf
#undef vsnprintf
#undef fputc
#undef exit
#undef abort

#define NERR ((int)(sizeof LibErrors / sizeof LibErrors[0]))

/* prefix printers: "%s:%d: --ERROR PE%03d: " / "ERROR PE%03d: " -- record file/line when given */
static int verif_fprintf(FILE *f, const char *fmt, ...)
{
    (void)f;
    if (fmt[0] == '%' && fmt[1] == 's' && fmt[2] == ':') {
        va_list ap;
        va_start(ap, fmt);
        g_file_printed = va_arg(ap, const char *);
        g_line_printed = va_arg(ap, int);
        g_prefix_errnum = va_arg(ap, int);
        va_end(ap);
    }
    return 0;
}
/* message formatter: records the first two variadic arguments it is handed */
static int verif_vfprintf(FILE *f, const char *fmt, va_list ap)
{
    (void)f;
    g_fmt_calls++;
    g_fmt_last = fmt;
    if (g_want_va) {
        g_va_first = va_arg(ap, const void *);
        g_va_second = va_arg(ap, const void *);
    }
    return 0;
}
int nondet_int(void);
static int verif_vsnprintf(char *s, size_t n, const char *fmt, va_list ap)
{
    /* ISO C: writes at most n bytes (incl. NUL) to s, returns the untruncated length or <0 */
#ifndef VERIF_DFCC_SAFE
    g_fmt_calls++;
    if (g_want_va && g_fmt_calls == g_want_va) {
        g_fmt_last = fmt;
        g_va_first = va_arg(ap, const void *);
        g_va_second = va_arg(ap, const void *);
    } else if (g_want_va && fmt[0] == '%' && fmt[1] == 's' && fmt[2] == ':') {
        g_file_printed = va_arg(ap, const char *);
        g_line_printed = va_arg(ap, int);
        g_prefix_errnum = va_arg(ap, int);
    }
#endif
#ifdef VERIF_NATIVE
    if (n) s[0] = 0;
    return 0;
#else
    int r = nondet_int();
    if (n > 0) { size_t k; __CPROVER_assume(k < n); s[k] = 0; }
    return r;
#endif
}
static int verif_fputc(int c, FILE *f) { (void)f; return c; }
static void verif_exit(int status)
{
    g_exited = 1;
    g_exit_status = status;
    __CPROVER_assert(status != 0, "C04.E1 exit status after a fatal diagnostic is non-zero");
    __CPROVER_assert(ERRORoccurred, "C04.E1 ERRORoccurred is set before a fatal diagnostic exits");
#ifndef VERIF_NATIVE
    __CPROVER_assume(0);
#else
    fprintf(stderr, "NATIVE-REPLAY: exit(%d) reached\n", status);
    _Exit(verif_native_failed ? 1 : 0);
#endif
}
static void verif_abort(void)
{
    g_exited = 1;
    g_exit_status = -1;
#ifndef VERIF_NATIVE
    __CPROVER_assume(0);
#else
    _Exit(verif_native_failed ? 1 : 0);
#endif
}

#ifdef VERIF_NATIVE
/* native replay only: externals of error.c that live in other objects; values per their contracts */
#include "express/express.h"
int (*EXPRESSfail)(Express);
char *EXPRESSprogram_name = "replay";
#ifdef VERIF_DFCC_SAFE
int EXPRESS_fail(Express model) { (void)model; return 1; }
#endif
void EXPRESSusage(int x) { (void)x; }
#endif

#ifdef VERIF_DFCC_SAFE
#include "contracts.c"
#else
#include "harnesses.c"
#endif
VERIF_MAIN()
