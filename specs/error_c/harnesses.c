/* Harness-form contracts for the variadic reporters of src/express/error.c (unit error_c_h).
 * requires = __CPROVER_assume on explicitly havocked module state, ensures = __CPROVER_assert. */
#include "express/express.h"

unsigned gk; /* ghost index, arbitrary, never written */
int nondet_int(void);
long nondet_long(void);

#ifdef VERIF_NATIVE
static char verif_space[ERROR_MAX_SPACE];
#endif

/* havoc the module state of error.c and constrain it to the module invariant
 * (what ERRORinitialize establishes and every reporter preserves) */
static void module_state(long in_off, int in_lines)
{
#ifndef VERIF_NATIVE
    ERROR_string_base = malloc(ERROR_MAX_SPACE);
    __CPROVER_assume(ERROR_string_base != NULL);
    __CPROVER_havoc_object(heap);
#else
    ERROR_string_base = verif_space;
#endif
    ERROR_string_end = ERROR_string_base + ERROR_MAX_SPACE;
    __CPROVER_assume(in_off >= 0 && in_off <= ERROR_MAX_SPACE);
    ERROR_string = ERROR_string_base + in_off;
    __CPROVER_assume(in_lines >= 0 && in_lines < ERROR_MAX_ERRORS);
    ERROR_with_lines = in_lines;
}
#define BUF_WF (ERROR_string_end == ERROR_string_base + ERROR_MAX_SPACE && \
                ERROR_string - ERROR_string_base >= 0 && ERROR_string - ERROR_string_base <= ERROR_MAX_SPACE)
#define HEAP_ROOM (ERROR_with_lines >= 0 && ERROR_with_lines < ERROR_MAX_ERRORS)

/* model of the contract of ERROR_flush_message_buffer (enforced on the real body in unit error_c,
 * harness h_flush): requires 0 <= ERROR_with_lines <= MAX; assigns ERROR_with_lines, heap;
 * ensures buffering ==> ERROR_with_lines == 0, else unchanged */
static void verif_flush_model(void)
{
    __CPROVER_assert(ERROR_with_lines >= 0 && ERROR_with_lines <= ERROR_MAX_ERRORS,
                     "C06 precondition of ERROR_flush_message_buffer holds at the call (heap count within [0,100])");
    if (__ERROR_buffer_errors) {
#ifndef VERIF_NATIVE
        __CPROVER_havoc_object(heap);
#endif
        ERROR_with_lines = 0;
    }
}
/* model of the contract of EXPRESS_fail (enforced in unit express_c): non-zero when no fail hook is installed */
int EXPRESS_fail(Express model)
{
    (void)model;
    __CPROVER_assert(EXPRESSfail == NULL, "precondition of EXPRESS_fail contract: no fail hook installed");
    verif_flush_model();
#ifndef VERIF_NATIVE
    int r = nondet_int();
    __CPROVER_assume(r != 0);
    return r;
#else
    return 1;
#endif
}

/* C04-E1 (line-numbered reporter) + C06 (heap index and string cursor stay in bounds) */
void h_with_symbol(void)
{
    IN(int, in_errnum);
    IN_BOOL(in_override);
    IN_BOOL(in_occurred);
    IN_BOOL(in_buffer);
    IN(int, in_sev);
    IN(long, in_off);
    IN(int, in_lines);
    IN(int, in_line);
    __CPROVER_assume(in_errnum >= 0 && in_errnum < NERR);
    module_state(in_off, in_lines);
    LibErrors[in_errnum].override = in_override;
    LibErrors[in_errnum].severity = (enum Severity)in_sev;
    ERRORoccurred = in_occurred;
    __ERROR_buffer_errors = in_buffer;
    g_want_va = 0; g_fmt_calls = 0; EXPRESSfail = NULL;
    Symbol sym;
    sym.filename = "f.exp";
    sym.line = in_line;
    ERRORreport_with_symbol((enum ErrorCode)in_errnum, &sym, "x", "y", "z", "w");
    /* reached only when the call returned */
    bool counts = in_errnum != SUBORDINATE_FAILED && !in_override && in_sev >= SEVERITY_ERROR;
    __CPROVER_assert(!counts || ERRORoccurred, "C04.E1 enabled line-numbered diagnostic of severity>=ERROR sets the verdict flag");
    __CPROVER_assert(counts || ERRORoccurred == in_occurred, "C04.E1 warnings, disabled and subordinate diagnostics leave the verdict flag alone");
    __CPROVER_assert(!(counts && in_sev >= SEVERITY_EXIT), "C04.E1 fatal diagnostics do not return");
    __CPROVER_assert(BUF_WF, "C06 message cursor stays inside the message buffer");
    __CPROVER_assert(HEAP_ROOM, "C06 message heap keeps room for the next message");
}

/* ---------------- C20: argument forwarding ---------------- */
/* The k-th value the message formatter consumes is the k-th variadic argument of the outermost caller;
 * the file/line printed in front are the symbol's (or current_filename / the line passed). */
static void fwd_state(int in_errnum, bool in_buffer, long in_off, int in_lines)
{
    __CPROVER_assume(in_errnum > 0 && in_errnum < NERR && in_errnum != SUBORDINATE_FAILED);
    module_state(in_off, in_lines);
    __CPROVER_assume(in_lines < ERROR_MAX_ERRORS - 1 && in_off + 2 * ERROR_MAX_STRLEN < ERROR_MAX_SPACE);
    __CPROVER_assume(LibErrors[in_errnum].severity < SEVERITY_EXIT);
    LibErrors[in_errnum].override = false;
    __ERROR_buffer_errors = in_buffer;
    g_fmt_calls = 0; EXPRESSfail = NULL;
    g_va_first = g_va_second = 0; g_file_printed = 0; g_line_printed = -1; g_prefix_errnum = -1;
    /* unbuffered: the message is the 1st va_list formatting call; buffered: the prefix is the 1st vsnprintf, the message the 2nd */
    g_want_va = in_buffer ? 2 : 1;
}

void h_fwd_report(void)
{
    IN(int, in_errnum);
    IN_ARR(char, in_a1, 4);
    IN_ARR(char, in_a2, 4);
    fwd_state(in_errnum, false, 0, 0);
    in_a1[3] = in_a2[3] = 0;
    ERRORreport((enum ErrorCode)in_errnum, in_a1, in_a2);
    __CPROVER_assert(g_fmt_calls == 1 && g_fmt_last == LibErrors[in_errnum].message, "C20 ERRORreport formats the table message of the reported code");
    __CPROVER_assert(g_va_first == (const void *)in_a1 && g_va_second == (const void *)in_a2, "C20 ERRORreport hands the caller's arguments to the formatter unchanged");
}

void h_fwd_symbol(void)
{
    IN(int, in_errnum);
    IN_BOOL(in_buffer);
    IN(long, in_off);
    IN(int, in_lines);
    IN(int, in_line);
    IN_ARR(char, in_a1, 4);
    IN_ARR(char, in_a2, 4);
    IN_ARR(char, in_file, 6);
    fwd_state(in_errnum, in_buffer, in_off, in_lines);
    in_a1[3] = in_a2[3] = 0; in_file[5] = 0;
    Symbol sym;
    sym.name = 0; sym.filename = in_file; sym.line = in_line; sym.resolved = 0;
    ERRORreport_with_symbol((enum ErrorCode)in_errnum, &sym, in_a1, in_a2);
    __CPROVER_assert(g_fmt_last == LibErrors[in_errnum].message, "C20 ERRORreport_with_symbol formats the table message of the reported code");
    __CPROVER_assert(g_va_first == (const void *)in_a1 && g_va_second == (const void *)in_a2, "C20 ERRORreport_with_symbol hands the caller's arguments to the formatter unchanged");
    __CPROVER_assert(g_file_printed == in_file && g_line_printed == in_line && g_prefix_errnum == in_errnum, "C20 ERRORreport_with_symbol attributes the diagnostic to the symbol's file and line");
}

/* must-fail canary (vacuity guard) for the forwarding harnesses: under the same assumed module state the reporter returns having formatted a
 * message, so the claim that no message is ever formatted has to be refuted */
void h_canary_fwd_symbol_reachable(void)
{
    IN(int, in_errnum);
    IN_BOOL(in_buffer);
    IN(long, in_off);
    IN(int, in_lines);
    IN(int, in_line);
    IN_ARR(char, in_a1, 4);
    IN_ARR(char, in_a2, 4);
    IN_ARR(char, in_file, 6);
    fwd_state(in_errnum, in_buffer, in_off, in_lines);
    in_a1[3] = in_a2[3] = 0; in_file[5] = 0;
    Symbol sym;
    sym.name = 0; sym.filename = in_file; sym.line = in_line; sym.resolved = 0;
    ERRORreport_with_symbol((enum ErrorCode)in_errnum, &sym, in_a1, in_a2);
    __CPROVER_assert(g_fmt_last == 0, "canary: ERRORreport_with_symbol never formats a message (must be refuted)");
}

void h_fwd_line(void)
{
    IN(int, in_errnum);
    IN_BOOL(in_buffer);
    IN(long, in_off);
    IN(int, in_lines);
    IN(int, in_line);
    IN_ARR(char, in_a1, 4);
    IN_ARR(char, in_a2, 4);
    IN_ARR(char, in_file, 6);
    fwd_state(in_errnum, in_buffer, in_off, in_lines);
    in_a1[3] = in_a2[3] = 0; in_file[5] = 0;
    current_filename = in_file;
    ERRORreport_with_line((enum ErrorCode)in_errnum, in_line, in_a1, in_a2);
    __CPROVER_assert(g_fmt_last == LibErrors[in_errnum].message, "C20 ERRORreport_with_line formats the table message of the reported code");
    __CPROVER_assert(g_va_first == (const void *)in_a1 && g_va_second == (const void *)in_a2, "C20 ERRORreport_with_line hands the caller's arguments to the formatter unchanged");
    __CPROVER_assert(g_file_printed == in_file && g_line_printed == in_line && g_prefix_errnum == in_errnum, "C20 ERRORreport_with_line attributes the diagnostic to the current file and the line passed");
}

/* ---------------- C20: -i/-w switches ---------------- */
#define NAME_MAX_LEN 24
static int spec_streq(const char *a, const char *b)
{
    int i;
    for (i = 0; i < NAME_MAX_LEN + 2; i++) {
        if (a[i] != b[i]) return 0;
        if (a[i] == 0) return 1;
    }
    return 0;
}
#ifndef VERIF_NATIVE
void EXPRESSusage(int x) { (void)x; } /* external (express.c): prints usage and exits; irrelevant to the table */
#endif
void h_set_warning(void)
{
    IN_ARR(char, in_name, NAME_MAX_LEN + 1);
    IN_BOOL(in_w);
    IN(unsigned, in_gk);
    IN_BOOL(in_old);
    in_name[NAME_MAX_LEN] = 0;
    __CPROVER_assume(in_gk < (unsigned)NERR);
    /* the real (initialised) table; the override of the observed entry is arbitrary */
    LibErrors[in_gk].override = in_old;
    struct Error_ before = LibErrors[in_gk];
    ERRORusage_function = 0;
    ERRORset_warning(in_name, in_w);
    struct Error_ after = LibErrors[in_gk];
    __CPROVER_assert(after.severity == before.severity && after.message == before.message && after.name == before.name,
                     "C20 -i/-w never changes severity, message or class name of any diagnostic");
    bool hit = before.severity <= SEVERITY_WARNING && before.name != 0 && spec_streq(before.name, in_name);
    __CPROVER_assert(after.override == (hit ? in_w : in_old), "C20 -i/-w switches exactly the warning-class entries with the given class name");
    __CPROVER_assert(before.severity <= SEVERITY_WARNING || after.override == in_old, "C20/C04 -i/-w cannot disable a diagnostic of severity>=ERROR (verdict unaffected)");
}

/* ---------------- C04: the table itself (real initial values) ---------------- */
/* error classes the property lists as "rejected with at least one ERROR diagnostic" */
static const int must_reject[] = {
    DUPLICATE_DECL, DUPLICATE_DECL_DIFF_FILE, SYNTAX, SYNTAX_EXPECTING,
    UNDEFINED, UNDEFINED_ATTR, UNDEFINED_TYPE, UNDEFINED_SCHEMA, UNDEFINED_FUNC, UNKNOWN_ATTR_IN_ENTITY,
    UNKNOWN_SUBTYPE, UNKNOWN_SUPERTYPE, REF_NONEXISTENT, SUBSUPER_LOOP, SELECT_LOOP, MISSING_SUPERTYPE,
    OVERLOADED_ATTR, INVERSE_BAD_ENTITY, INVERSE_BAD_ATTR, SUPERTYPE_RESOLVE, SUBTYPE_RESOLVE, NOT_A_TYPE,
    FUNCALL_NOT_A_FUNCTION, REDECL_NO_SUCH_ATTR, REDECL_NO_SUCH_SUPERTYPE, CIRCULAR_REFERENCE, TYPE_IS_ENTITY
};
void h_table(void)
{
    IN(unsigned, in_k);
    __CPROVER_assume(in_k < sizeof must_reject / sizeof must_reject[0]);
    int e = must_reject[in_k];
    __CPROVER_assert(LibErrors[e].severity >= SEVERITY_ERROR, "C04 every error class the property lists is of severity>=ERROR in the diagnostic table");
    __CPROVER_assert(!LibErrors[e].override, "C04 every error class the property lists is enabled initially");
    __CPROVER_assert(LibErrors[e].message != 0, "C20 every listed error class has a message");
}
