/* Contracts and harnesses for src/express/error.c (C04-E1, C20, C06 parts).
 * Universal statements use a ghost index gk that is never written. */
#include "express/express.h"

unsigned gk; /* ghost index, arbitrary */

#define HEAP_WF (ERROR_with_lines >= 0 && ERROR_with_lines <= ERROR_MAX_ERRORS)
#define IS_ERRCLASS(e) (LibErrors[e].severity >= SEVERITY_ERROR)

#ifndef VERIF_NATIVE
/* ---------------- contracts (verifier only) ---------------- */

/* callee contract; enforced in unit express_c (harness h_EXPRESS_fail) */
int EXPRESS_fail(Express model)
__CPROVER_requires(EXPRESSfail == NULL)
__CPROVER_requires(HEAP_WF)
__CPROVER_assigns(ERROR_with_lines, ERROR_string, __CPROVER_object_whole(heap))
__CPROVER_ensures(__CPROVER_return_value != 0)
;

void ERROR_flush_message_buffer(void)
__CPROVER_requires(HEAP_WF)
__CPROVER_assigns(ERROR_with_lines, __CPROVER_object_whole(heap))
__CPROVER_ensures(HEAP_WF)
__CPROVER_ensures(__ERROR_buffer_errors ==> ERROR_with_lines == 0)
__CPROVER_ensures(!__ERROR_buffer_errors ==> ERROR_with_lines == __CPROVER_old(ERROR_with_lines))
;

/* C04-E1: the verdict flag is set exactly when an enabled diagnostic of severity >= ERROR is reported */
void ERRORreport(enum ErrorCode errnum, ...)
__CPROVER_requires((int)errnum >= 0 && (int)errnum < NERR)
__CPROVER_requires(HEAP_WF && EXPRESSfail == NULL)
__CPROVER_assigns(ERRORoccurred, g_exited, g_exit_status,
                  ERROR_with_lines, ERROR_string, __CPROVER_object_whole(heap))
__CPROVER_ensures(((int)errnum != SUBORDINATE_FAILED && !LibErrors[errnum].override && IS_ERRCLASS(errnum))
                  ==> ERRORoccurred)
__CPROVER_ensures(!((int)errnum != SUBORDINATE_FAILED && !LibErrors[errnum].override && IS_ERRCLASS(errnum))
                  ==> ERRORoccurred == __CPROVER_old(ERRORoccurred))
__CPROVER_ensures(LibErrors[errnum].severity < SEVERITY_EXIT || LibErrors[errnum].override || (int)errnum == SUBORDINATE_FAILED)
;


/* C20: the "all warnings" switch changes only whether warning-class entries are printed */
void ERRORset_all_warnings(bool warn_only)
__CPROVER_requires(gk < (unsigned)NERR)
__CPROVER_assigns(__CPROVER_object_whole(LibErrors))
__CPROVER_ensures(LibErrors[gk].severity == __CPROVER_old(LibErrors[gk].severity))
__CPROVER_ensures(LibErrors[gk].message == __CPROVER_old(LibErrors[gk].message))
__CPROVER_ensures(LibErrors[gk].name == __CPROVER_old(LibErrors[gk].name))
__CPROVER_ensures(LibErrors[gk].override == (LibErrors[gk].severity <= SEVERITY_WARNING ? warn_only : __CPROVER_old(LibErrors[gk].override)))
;
#endif

/* ---------------- harnesses ---------------- */

void h_ERRORreport(void)
{
    IN(int, in_errnum);
    IN_BOOL(in_override);
    IN_BOOL(in_occurred);
    IN_BOOL(in_buffer);
    IN(int, in_lines);
    IN(int, in_sev);
    IN_ARR(char, in_a1, 4);
    IN_ARR(char, in_a2, 4);
    __CPROVER_assume(in_errnum >= 0 && in_errnum < NERR);
    __CPROVER_assume(in_lines >= 0 && in_lines <= ERROR_MAX_ERRORS);
    in_a1[3] = 0; in_a2[3] = 0;
    LibErrors[in_errnum].override = in_override;
    LibErrors[in_errnum].severity = (enum Severity)in_sev; /* any table content */
    ERRORoccurred = in_occurred;
    __ERROR_buffer_errors = in_buffer;
    ERROR_with_lines = in_lines;
    g_want_va = 0; g_fmt_calls = 0; EXPRESSfail = NULL;
    ERRORreport((enum ErrorCode)in_errnum, in_a1, in_a2);
    /* reached only when the call returned */
    bool counts = in_errnum != SUBORDINATE_FAILED && !in_override && LibErrors[in_errnum].severity >= SEVERITY_ERROR;
    __CPROVER_assert(!counts || ERRORoccurred, "C04.E1 enabled diagnostic of severity>=ERROR sets the verdict flag");
    __CPROVER_assert(counts || ERRORoccurred == in_occurred, "C04.E1 warnings, disabled and subordinate diagnostics leave the verdict flag alone");
    __CPROVER_assert(!(counts && LibErrors[in_errnum].severity >= SEVERITY_EXIT), "C04.E1 fatal diagnostics do not return");
}

/* must-fail canary (vacuity guard) for h_ERRORreport: with the same preconditions and the same contract instrumentation the call returns
 * for an enabled diagnostic of the ERROR class, so the claim that this never happens has to be refuted */
void h_canary_ERRORreport_reachable(void)
{
    IN(int, in_errnum);
    IN_BOOL(in_override);
    IN_BOOL(in_occurred);
    IN_BOOL(in_buffer);
    IN(int, in_lines);
    IN(int, in_sev);
    IN_ARR(char, in_a1, 4);
    IN_ARR(char, in_a2, 4);
    __CPROVER_assume(in_errnum >= 0 && in_errnum < NERR);
    __CPROVER_assume(in_lines >= 0 && in_lines <= ERROR_MAX_ERRORS);
    in_a1[3] = 0; in_a2[3] = 0;
    LibErrors[in_errnum].override = in_override;
    LibErrors[in_errnum].severity = (enum Severity)in_sev; /* any table content */
    ERRORoccurred = in_occurred;
    __ERROR_buffer_errors = in_buffer;
    ERROR_with_lines = in_lines;
    g_want_va = 0; g_fmt_calls = 0; EXPRESSfail = NULL;
    ERRORreport((enum ErrorCode)in_errnum, in_a1, in_a2);
    /* reached only when the call returned */
    bool counts = in_errnum != SUBORDINATE_FAILED && !in_override && LibErrors[in_errnum].severity >= SEVERITY_ERROR;
    __CPROVER_assert(!(counts && ERRORoccurred), "canary: no enabled diagnostic of the ERROR class is ever reported and returned from (must be refuted)");
}


void h_set_all_warnings(void)
{
    bool w;
    ERRORset_all_warnings(w);
}

/* C06: the real body of ERROR_flush_message_buffer against the contract used at its call sites */
void h_flush(void)
{
    ERROR_flush_message_buffer();
}
