/* Unit appinst_cc (CXX-FN): the instance reader SDAI_Application_instance::STEPread extracted from sdaiApplication_instance.cc */
#define instmgr_h
#define EXPDICT_H
#define private public
#define protected public
#include <iostream>
#include <sstream>
#include "cxx/verif_stream_model.h"
#include "clstepcore/sdai.h"
#include "repo/expdict_iface.h"
#include "clstepcore/STEPattribute.h"
#include "clstepcore/read_func.h"
#include "clutils/Str.h"
#include <stdio.h>
#include <stdlib.h>
#include <string.h>
#include <ctype.h>
/* ---- environment: the attribute list and the recording contract stub of the attribute reader ---- */
#define NA 3
static STEPattribute *g_attr[NA]; static int g_n; static int g_kind[NA];              /* AttrType of each attribute */
static Severity g_attr_sev[NA];                                                      /* what each attribute's reader leaves */
static int g_reads; static STEPattribute *g_read_attr[NA]; static InstMgrBase *g_read_set[NA]; static int g_read_incr[NA]; static bool g_read_strict[NA]; static const char *g_read_sch[NA];
STEPattribute &STEPattributeList::operator[](int n) { return *g_attr[n]; }
int STEPattributeList::list_length() { return g_n; }
enum AttrType_Enum AttrDescriptor::AttrType() const { for (int i = 0; i < NA; i++) if (g_attr[i] && g_attr[i]->aDesc == this) return (AttrType_Enum)g_kind[i]; return AttrType_Explicit; }
const char *AttrDescriptor::Name() const { return "a"; }
Severity STEPattribute::STEPread(istream &in, InstMgrBase *set, int incr, const char *sch, bool strict)
{   /* contract: consumes the attribute's token, not the delimiter; leaves its severity in the attribute's descriptor */
    int k = 0; for (int i = 0; i < NA; i++) if (g_attr[i] == this) k = i;
    if (g_reads < NA) { g_read_attr[g_reads] = this; g_read_set[g_reads] = set; g_read_incr[g_reads] = incr; g_read_strict[g_reads] = strict; g_read_sch[g_reads] = sch; }
    g_reads++; in.get(); _error.severity(g_attr_sev[k]); return g_attr_sev[k];
}
static int g_err_calls, g_prepend_calls, g_cri_calls, g_set_null_calls;
Severity STEPattribute::set_null() { g_set_null_calls++; return SEVERITY_NULL; }
static void verif_STEPread_error(SDAI_Application_instance *se, char, int, istream &, const char *) { g_err_calls++; se->_error.GreaterSeverity(SEVERITY_WARNING); }   /* contract: reports an error */
void SDAI_Application_instance::PrependEntityErrMsg() { g_prepend_calls++; }
void SDAI_Application_instance::ClearError(int) { _error.ClearErrorMsg(); }
void ReadTokenSeparator(istream &in, std::string *) { in >> ws; }
Severity CheckRemainingInput(istream &, ErrorDescriptor *e, const char *, const char *) { g_cri_calls++; e->GreaterSeverity(SEVERITY_WARNING); return e->severity(); }
#include "appinst_extract.inc"
/* ---- writer side ---- */
static int g_writes; static STEPattribute *g_write_attr[NA]; static const char *g_write_sch[NA];
void STEPattribute::STEPwrite(ostream &out, const char *sch) { if (g_writes < NA) { g_write_attr[g_writes] = this; g_write_sch[g_writes] = sch; } g_writes++; out << "@"; }
const char *SDAI_Application_instance::EntityName(const char *) const { return "ent"; }
const char *StrToUpper(const char *w, std::string &s) { s.clear(); for (int i = 0; i < 31 && w[i]; i++) s += (char)toupper(w[i]); return s.c_str(); }
#include "appinst_write_extract.inc"
/* message text is outside these obligations: the message builders of errordesc.cc are no-ops here (the severity lattice,
 * GreaterSeverity / severity / ClearErrorMsg, is the real inline code of errordesc.h) */
ErrorDescriptor::ErrorDescriptor(Severity s, DebugLevel) : _severity(s) {}
ErrorDescriptor::~ErrorDescriptor() {}
void ErrorDescriptor::AppendToUserMsg(const char *) {} void ErrorDescriptor::AppendToUserMsg(const char) {}
void ErrorDescriptor::AppendToDetailMsg(const char *) {} void ErrorDescriptor::AppendToDetailMsg(const char) {}
#undef private
#undef protected
#include "verif.h"

/* C03 (too few / too many parameters), C14 / C15 (offset, instance set and strictness reach every attribute), severity merge */
extern "C" void h_inst_STEPread()
{
    IN(int, in_n); IN(int, in_m); IN(int, in_k0); IN(int, in_k1); IN(int, in_k2); IN(int, in_s0); IN(int, in_s1); IN(int, in_s2);
    IN(int, in_id); IN(int, in_incr); IN(int, in_strict);
    __CPROVER_assume(in_n >= 0 && in_n <= NA && in_m >= 1 && in_m <= NA);
    int kinds[NA] = { in_k0, in_k1, in_k2 }, sevs[NA] = { in_s0, in_s1, in_s2 };
    int plain = 0;
    for (int i = 0; i < NA; i++) {
        __CPROVER_assume(kinds[i] == AttrType_Explicit || kinds[i] == AttrType_Redefining);
        __CPROVER_assume(sevs[i] == SEVERITY_NULL || sevs[i] == SEVERITY_USERMSG || sevs[i] == SEVERITY_INCOMPLETE || sevs[i] == SEVERITY_WARNING || sevs[i] == SEVERITY_INPUT_ERROR);
        g_attr[i] = (STEPattribute *)malloc(sizeof(STEPattribute)); g_attr[i]->aDesc = (AttrDescriptor *)malloc(sizeof(AttrDescriptor));
        g_attr[i]->_error._userMsg._n = 0; g_attr[i]->_error._userMsg._m[0] = 0; g_attr[i]->_error._detailMsg._n = 0; g_attr[i]->_error._detailMsg._m[0] = 0; g_attr[i]->_error._severity = SEVERITY_NULL;
        g_kind[i] = kinds[i]; g_attr_sev[i] = (Severity)sevs[i];
        if (i < in_n && kinds[i] == AttrType_Explicit) plain++;
    }
    g_n = in_n;
    /* "(" v , v , v ")" with in_m parameter tokens, then ";" */
    int p = 0; g_stream_arbitrary = 0; g_stream_script[p++] = '(';
    for (int i = 0; i < NA; i++) if (i < in_m) { g_stream_script[p++] = 'v'; g_stream_script[p++] = (i + 1 < in_m) ? ',' : ')'; }
    g_stream_script[p++] = ';'; g_stream_len = p;
    istream in; in._m_state = 0; in._m_have = 0; in._m_consumed = 0;
    SDAI_Application_instance *se = (SDAI_Application_instance *)malloc(sizeof(SDAI_Application_instance));
    se->_error._userMsg._n = 0; se->_error._userMsg._m[0] = 0; se->_error._detailMsg._n = 0; se->_error._detailMsg._m[0] = 0; se->_error._severity = SEVERITY_NULL;
    new (&se->p21Comment) std::string();
    InstMgrBase *set = (InstMgrBase *)malloc(8);
    g_reads = g_err_calls = g_prepend_calls = g_cri_calls = g_set_null_calls = 0;
    __CPROVER_assume(in_n >= 1);                 /* entities without attributes: separate case below */
    Severity s = se->SDAI_Application_instance::STEPread(in_id, in_incr, set, in, "sch", true, in_strict != 0);
    __CPROVER_assert(se->STEPfile_id == in_id, "C14 the instance takes the id it is given");
    __CPROVER_assert(g_set_null_calls == 0, "C15/C01 the instance reader never resets a value that an attribute reader has stored (a lenient substitute stays and is what is written back)");
    /* every parameter token that has a plain attribute to go to is read by that attribute, in order, with the caller's context */
    int expect_reads = in_m < plain ? in_m : plain;
    __CPROVER_assert(g_reads >= expect_reads, "the parameters are handed to the plain attributes in order");
    int j = 0;
    for (int i = 0; i < NA; i++) if (i < in_n && kinds[i] == AttrType_Explicit && j < g_reads && j < NA) {
        __CPROVER_assert(g_read_attr[j] == g_attr[i], "C01 the k-th parameter goes to the k-th attribute that is not a redeclaration");
        __CPROVER_assert(g_read_set[j] == set && g_read_incr[j] == in_incr, "C14 instance set and id offset reach every attribute reader unchanged");
        __CPROVER_assert(g_read_strict[j] == (in_strict != 0), "C15 the strict / lenient setting reaches every attribute reader unchanged");
        j++;
    }
    if (in_m < plain) __CPROVER_assert(s <= SEVERITY_WARNING, "C03 too few parameters (a plain attribute is left without a value, wherever redeclared attributes sit in the list) is an error");
    if (in_m > plain) __CPROVER_assert(s <= SEVERITY_WARNING, "C03 too many parameters is an error");
    __CPROVER_assert(in._m_consumed == (unsigned long)(p - 1), "C03 (confinement) whatever was wrong with the parameters, reading stops in front of the instance's terminating semicolon, so that the next instance is read");
    if (in_m == plain) {
        Severity worst = SEVERITY_NULL; int jj = 0;
        for (int i = 0; i < NA; i++) if (i < in_n && kinds[i] == AttrType_Explicit) { if (sevs[i] < worst) worst = (Severity)sevs[i]; jj++; }
        __CPROVER_assert(s == worst, "C03 with the right number of parameters the instance's severity is the worst severity any of its attributes reported (nothing is lost, nothing invented)");
    }
}

/* C01: an instance is written as #id=KEYWORD(v1,v2,...); with one value per attribute that is not a redeclaration, in attribute
 * order, separated by single commas, nothing else */
extern "C" void h_inst_STEPwrite()
{
    IN(int, in_n); IN(int, in_k0); IN(int, in_k1); IN(int, in_k2); IN(int, in_id);
    __CPROVER_assume(in_n >= 0 && in_n <= NA && in_id >= 1 && in_id <= 1000000);
    int kinds[NA] = { in_k0, in_k1, in_k2 };
    __CPROVER_assume(in_k0 == AttrType_Explicit);                 /* a redeclaration never comes first: it follows the attribute it redeclares */
    for (int i = 0; i < NA; i++) {
        __CPROVER_assume(kinds[i] == AttrType_Explicit || kinds[i] == AttrType_Redefining);
        g_attr[i] = (STEPattribute *)malloc(sizeof(STEPattribute)); g_attr[i]->aDesc = (AttrDescriptor *)malloc(sizeof(AttrDescriptor)); g_kind[i] = kinds[i];
    }
    g_n = in_n; g_writes = 0;
    SDAI_Application_instance *se = (SDAI_Application_instance *)malloc(sizeof(SDAI_Application_instance));
    new (&se->p21Comment) std::string(); se->STEPfile_id = in_id;
    ostream out; out._m_written = 0;
    se->SDAI_Application_instance::STEPwrite(out, "sch", 1);
    int plain = 0; for (int i = 0; i < NA; i++) if (i < in_n && kinds[i] == AttrType_Explicit) plain++;
    /* transcript: "#" id "=" "ENT" "(" { ["," ] "@" } ");\n" */
    unsigned long expect = 5 + (unsigned long)plain + (plain > 0 ? (unsigned long)plain - 1 : 0) + 1;
    __CPROVER_assert(out._m_written == expect, "C01 an instance is written as its id, keyword, one value per non-redeclared attribute, single commas between them, and the closing );");
    __CPROVER_assert(out._m_logc[0] == 'S' && !strcmp(out._m_logt[0], "#") && out._m_logc[2] == 'S' && !strcmp(out._m_logt[2], "=") && out._m_logc[3] == 'S' && !strcmp(out._m_logt[3], "ENT") && out._m_logc[4] == 'S' && !strcmp(out._m_logt[4], "("), "C01 the instance starts with #id=KEYWORD( with the keyword in upper case");
    int pos = 5;
    for (int j = 0; j < NA; j++) if (j < plain) {
        if (j > 0) { __CPROVER_assert(out._m_logc[pos] == 'S' && out._m_logt[pos][0] == ',' && out._m_logt[pos][1] == 0, "C01 values are separated by exactly one comma"); pos++; }
        __CPROVER_assert(out._m_logc[pos] == 'S' && out._m_logt[pos][0] == '@' && out._m_logt[pos][1] == 0, "C01 each value is written in its place"); pos++;
    }
    __CPROVER_assert(out._m_logc[pos] == 'S' && out._m_logt[pos][0] == ')' && out._m_logt[pos][1] == ';', "C01 the instance ends with );");
    __CPROVER_assert(g_writes == plain, "C01 every attribute that is not a redeclaration is written exactly once");
    int j = 0;
    for (int i = 0; i < NA; i++) if (i < in_n && kinds[i] == AttrType_Explicit && j < NA) { __CPROVER_assert(g_write_attr[j] == g_attr[i] && g_write_sch[j] != 0, "C01 values are written in attribute order, with the current schema"); j++; }
    ostream out2; out2._m_written = 0;
    se->SDAI_Application_instance::STEPwrite_reference(out2);
    __CPROVER_assert(out2._m_written == 2 && out2._m_logc[0] == 'S' && !strcmp(out2._m_logt[0], "#"), "C01/C09 a reference to an instance is written as # followed by its id");
}
