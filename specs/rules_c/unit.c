/* Unit rules_c: src/exp2cxx/rules.c compiled unmodified (Route C): the printers of UNIQUE and WHERE rules into the generated schema
 * initialisation code (C06: labels are optional in EXPRESS; a rule without label must not be dereferenced) */
#include <stdio.h>
#include <stdlib.h>
#include <string.h>
#include <stdarg.h>
#include <stdbool.h>
#include "verif.h"
#include "express/scope.h"
/* fprintf: every conversion of the formats used here is %s; each argument must be a string */
static int g_prints, g_label_prints; static const char *g_last_label;
static int verif_fprintf(FILE *f, const char *fmt, ...)
{
    va_list ap; va_start(ap, fmt); (void)f; g_prints++;
    int is_label = 0;
    for (int i = 0; i < 90 && fmt[i]; i++) if (fmt[i] == '%' && fmt[i + 1] == 's') {
        const char *a = va_arg(ap, const char *);
        __CPROVER_assert(a != 0, "C06 every name printed into the generated code is a string that exists (a rule's label is optional)");
        if ((fmt[i + 2] == ' ' && fmt[i + 3] == ':') || (fmt[i + 2] == ':' && fmt[i + 3] == ' ')) { is_label = 1; g_last_label = a; }   /* "%s : " (UNIQUE) or "%s: (" (WHERE) */
    }
    if (is_label) g_label_prints++;
    va_end(ap); return 0;
}
#define fprintf verif_fprintf
#include "src/exp2cxx/rules.c"
#undef fprintf
const char *StrToUpper(const char *w) { __CPROVER_assert(w != 0, "C06 the name to be upper-cased exists"); return w; }
static int g_expr_prints; char *EXPRto_string(Expression e) { __CPROVER_assert(e != 0, "an expression is printed"); g_expr_prints++; return (char *)"x"; }
void format_for_std_stringout(FILE *f, char *s) { (void)f; (void)s; }

static struct Scope_ ent, schema; static struct Entity_ ee; static struct Linked_List_ uniqs, rule, wl; static struct Link_ um, u1, rm, r[3], wm, w[2];
static Symbol lab, wlab[2]; static struct Expression_ ex[2]; static struct Where_ wh[2]; static char nm[2] = "n", ln[2] = "l";
void h_rule_printers(void)
{
    IN(int, in_which); IN(int, in_label); IN(int, in_attrs); IN(int, in_wn); IN(int, in_wl0); IN(int, in_wl1); IN(int, in_schema); IN(int, in_needwr);
    static FILE fobj;
    schema.symbol.name = nm; ent.symbol.name = nm; ent.u.entity = &ee; lab.name = ln; wlab[0].name = ln; wlab[1].name = ln;
    g_prints = g_label_prints = g_expr_prints = 0;
    if (in_which) {
        __CPROVER_assume(in_attrs >= 0 && in_attrs <= 2);
        /* one rule: [ label-or-NULL, attr, attr ] */
        ee.unique = &uniqs; uniqs.mark = &um; um.next = &u1; um.prev = &u1; u1.next = &um; u1.prev = &um; u1.data = &rule;
        rule.mark = &rm; int k = 1 + in_attrs;
        rm.next = &r[0]; rm.prev = &r[k - 1];
        for (int i = 0; i < 3; i++) if (i < k) { r[i].next = i + 1 < k ? &r[i + 1] : &rm; r[i].prev = i ? &r[i - 1] : &rm; r[i].data = i == 0 ? (in_label ? (void *)&lab : (void *)0) : (void *)&ex[i - 1]; }
        UNIQUEprint(&ent, &fobj, &schema);
        __CPROVER_assert(g_label_prints == (in_label ? 1 : 0) && g_expr_prints == in_attrs, "a UNIQUE rule is printed with its label exactly when it has one, and with each of its attributes once");
    } else {
        __CPROVER_assume(in_wn >= 0 && in_wn <= 2);
        wl.mark = &wm; wm.next = in_wn ? &w[0] : &wm; wm.prev = in_wn ? &w[in_wn - 1] : &wm;
        for (int i = 0; i < 2; i++) if (i < in_wn) { w[i].next = i + 1 < in_wn ? &w[i + 1] : &wm; w[i].prev = i ? &w[i - 1] : &wm; w[i].data = &wh[i]; wh[i].expr = &ex[i]; wh[i].label = (i ? in_wl1 : in_wl0) ? &wlab[i] : (Symbol *)0; }
        WHEREprint(nm, &wl, &fobj, in_schema ? &schema : (Schema)0, in_needwr != 0);
        __CPROVER_assert(g_expr_prints == in_wn && g_label_prints == (in_wn > 0 && in_wl0 ? 1 : 0) + (in_wn > 1 && in_wl1 ? 1 : 0), "every WHERE rule is printed once, with its label exactly when it has one");
    }
}
