/* Unit stepfile_hdr_cc (CXX-FN): termination of the header-section reader STEPfile::ReadHeader with the real token-separator /
 * keyword / skip routines of read_func.cc (C05) */
#define EXPDICT_H
#define _REGISTRY_H
#define private public
#define protected public
#include <iostream>
#include <fstream>
#include "cxx/verif_stream_model.h"
#include "clstepcore/sdai.h"
#include "repo/expdict_iface.h"
class Registry;
#include "cleditor/STEPfile.h"
#include "clstepcore/read_func.h"
#undef private
#undef protected
#include <ctype.h>
#include <stdio.h>
#include <string.h>
#include <stdlib.h>
extern "C" { int nondet_int(); }
#undef MAX_COMMENT_LENGTH
#define MAX_COMMENT_LENGTH 6
/* <string.h> in C++ mode declares strchr overloads that cbmc's C library does not provide: model with ISO semantics */
const char *strchr(const char *s, int c) { for (int i = 0; i < 8; i++, s++) { if (*s == (char)c) return s; if (*s == 0) return 0; } return 0; }
char *strchr(char *s, int c) { for (int i = 0; i < 8; i++, s++) { if (*s == (char)c) return s; if (*s == 0) return 0; } return 0; }
/* libc model (ISO semantics): strncpy copies up to the terminator and pads; the destination must hold n bytes (checked) - the
 * keyword strings of this unit are <= 8 characters, so the copy loop is cut there and the padding is one write of 0 */
static char *verif_strncpy(char *d, const char *s, size_t n) {
    __CPROVER_assert(__CPROVER_OBJECT_SIZE(d) - __CPROVER_POINTER_OFFSET(d) >= n, "C05 strncpy's destination holds the n bytes it may write");
    size_t i = 0; for (; i < 8 && i < n && s[i]; i++) d[i] = s[i]; if (i < n) d[i] = 0; return d; }
#define strncpy verif_strncpy
/* consume an arbitrary number (0..4) of characters through the public interface: what an unknown reader may do to the stream */
static void verif_consume_some(istream &in) { int n = nondet_int(); for (int i = 0; i < 4; i++) if (i < n) in.get(); if (nondet_int()) in.peek(); }
/* contract stubs */
static int g_rounds;
SDAI_String::SDAI_String(const char *, size_t) {} SDAI_String::~SDAI_String() {} const char *SDAI_String::c_str() const { return "s"; }
Severity SDAI_String::STEPread(istream &in, ErrorDescriptor *) { in.get(); verif_consume_some(in); return SEVERITY_NULL; }   /* reads at least the opening quote */
static SDAI_Application_instance *g_obj; static ErrorDescriptor *g_obj_error;
static SDAI_Application_instance *verif_ObjCreate(const char *nm) { g_rounds++;
    { unsigned long room = __CPROVER_OBJECT_SIZE(nm) - __CPROVER_POINTER_OFFSET(nm); int term = 0; for (unsigned long i = 0; i < 3; i++) if (i < room && nm[i] == 0) term = 1;
      __CPROVER_assert(term, "C05 the keyword handed to the header registry is a terminated string inside its buffer"); }
    return nondet_int() ? g_obj : (nondet_int() ? (SDAI_Application_instance *)0 : ENTITY_NULL); }
/* same defaults as the real SDAI_Application_instance::STEPread( id, addFileId, instance_set, in, currSch, useTechCor = true, strict = true ) */
static int g_hdr_reads; static bool g_hdr_strict, g_hdr_techcor; static InstMgr *g_hdr_set; static int g_hdr_add;
static Severity verif_inst_STEPread(SDAI_Application_instance *, int, int add, InstMgr *set, istream &in, const char *, bool techcor = true, bool strict = true) { g_hdr_reads++; g_hdr_strict = strict; g_hdr_techcor = techcor; g_hdr_set = set; g_hdr_add = add; verif_consume_some(in); int s = nondet_int(); __CPROVER_assume(s >= SEVERITY_MAX && s <= SEVERITY_NULL); return (Severity)s; }
static ErrorDescriptor &verif_obj_error(SDAI_Application_instance *) { return *g_obj_error; }
static void verif_prepend(SDAI_Application_instance *, std::string &) {}
static InstMgr *verif_new_mgr() { return (InstMgr *)malloc(8); }
static void verif_delete_mgr(InstMgr *) {}
static void verif_mgr_append(InstMgr *, SDAI_Application_instance *, stateEnum) {}
int STEPfile::FindHeaderSection(istream &in) { verif_consume_some(in); return nondet_int() ? 1 : 0; }
int STEPfile::HeaderId(const char *) { return 1; }
Severity STEPfile::HeaderVerifyInstances(InstMgr *) { return SEVERITY_NULL; }
void STEPfile::HeaderMergeInstances(InstMgr *) {}
Severity STEPfile::AppendEntityErrorMsg(ErrorDescriptor *e) { return e->severity(); }
/* contract of ReadTokenSeparator as ReadHeader may rely on it: it returns (h_ReadTokenSeparator_terminates), having consumed any number of
 * characters; the stream may be left in any state - a comment cut off after a '*' leaves it failed WITHOUT the end-of-file mark */
static void verif_ReadTokenSeparator(istream &in, std::string * = 0) { if (in.eof()) return; verif_consume_some(in); if (!in.good() && nondet_int()) { in._m_state &= ~ios_base::eofbit; in._m_state |= ios_base::failbit; } }
#include "sep_extract.inc"
/* ReadHeader's keyword buffer is char[BUFSIZ+1]: BUFSIZ is scaled to 2 so that the 2- and 3-character keywords of the harness reach its end */
#undef BUFSIZ
#define BUFSIZ 2
#include "hdr_extract.inc"
#undef strncpy
/* message text is outside these obligations: the message builders of errordesc.cc are no-ops here (the severity lattice is the real inline code) */
ErrorDescriptor::ErrorDescriptor(Severity s, DebugLevel) : _severity(s) {}
ErrorDescriptor::~ErrorDescriptor() {}
void ErrorDescriptor::AppendToUserMsg(const char *) {} void ErrorDescriptor::AppendToUserMsg(const char) {}
void ErrorDescriptor::AppendToDetailMsg(const char *) {} void ErrorDescriptor::AppendToDetailMsg(const char) {}
#include "src/clstepcore/sdai.cc"
#include "verif.h"

/* C05: the header reader returns for every input and every stream state.  The stream is a script of <= 3 characters over the
 * alphabet the header reader branches on, in any initial state - in particular "failed, but not marked end-of-file", which is
 * what a putback after a read that hit the end leaves behind (ReadComment does that when the input ends after a '*').
 * Every loop is unwound with unwinding assertions: a round that neither returns nor advances the stream fails them. */
extern "C" void h_ReadHeader_terminates()
{
    IN_ARR(char, in_txt, 3); IN(unsigned, in_len); IN(int, in_state); IN(int, in_ftype); IN(int, in_strict);
    __CPROVER_assume(in_len <= 3);
    __CPROVER_assume(in_state >= 0 && in_state <= 7);
#define HDR_ALPHA(c) ((c) == '/' || (c) == '*' || (c) == 'E' || (c) == ';' || (c) == '(' || (c) == '\'' || (c) == ' ' || (c) == '!' || (c) == '\\' || (c) == 'A' || (c) == 'x')
    __CPROVER_assume(HDR_ALPHA(in_txt[0]) && HDR_ALPHA(in_txt[1]) && HDR_ALPHA(in_txt[2]));
    g_stream_arbitrary = 0; g_stream_script[0] = in_txt[0]; g_stream_script[1] = in_txt[1]; g_stream_script[2] = in_txt[2]; g_stream_len = in_len;
    istream in; in._m_state = in_state; in._m_have = 0; in._m_consumed = 0;
    STEPfile *f = (STEPfile *)malloc(sizeof(STEPfile));
    new (&f->_error) ErrorDescriptor();
    __CPROVER_assume(in_ftype == VERSION_CURRENT || in_ftype == VERSION_OLD || in_ftype == WORKING_SESSION);
    f->_fileType = (FileTypeCode)in_ftype; f->_errorCount = 0; f->_strict = in_strict != 0; g_hdr_reads = 0;
    ErrorDescriptor oe; g_obj_error = &oe; g_obj = (SDAI_Application_instance *)malloc(sizeof(SDAI_Application_instance));
    g_rounds = 0;
    Severity sv = f->ReadHeader(in);
    __CPROVER_assert(sv >= SEVERITY_MAX && sv <= SEVERITY_NULL, "C05 the header reader returns an ordinary severity for every input and stream state");
    if (g_hdr_reads) __CPROVER_assert(g_hdr_strict == (in_strict != 0) && g_hdr_techcor == true && g_hdr_set == 0 && g_hdr_add == 0, "C15 the header instances are read in the file's own mode (strict exactly when the file is strict), with no id offset and no instance set");
    __CPROVER_assert(g_rounds <= 4, "C05 the header reader tries at most one header instance per character of input (plus one)");
}

/* C05: the token-separator reader (white space, comments, print control directives) returns for every input and stream state */
extern "C" void h_ReadTokenSeparator_terminates()
{
    IN_ARR(char, in_txt, 4); IN(unsigned, in_len); IN(int, in_state); IN(int, in_keep);
    __CPROVER_assume(in_len <= 4);
    __CPROVER_assume(in_state >= 0 && in_state <= 7);
#define SEP_ALPHA(c) ((c) == '/' || (c) == '*' || (c) == '\\' || (c) == ' ' || (c) == '\n' || (c) == 'F' || (c) == 'N' || (c) == 'x')
    __CPROVER_assume(SEP_ALPHA(in_txt[0]) && SEP_ALPHA(in_txt[1]) && SEP_ALPHA(in_txt[2]) && SEP_ALPHA(in_txt[3]));
    g_stream_arbitrary = 0; g_stream_script[0] = in_txt[0]; g_stream_script[1] = in_txt[1]; g_stream_script[2] = in_txt[2]; g_stream_script[3] = in_txt[3]; g_stream_len = in_len;
    istream in; in._m_state = in_state; in._m_have = 0; in._m_consumed = 0;
    std::string keep;
    ReadTokenSeparator(in, in_keep ? &keep : (std::string *)0);
    __CPROVER_assert(in._m_consumed <= in_len, "C05 the separator reader returns, having read no more than the input holds");
}

/* C05 / C03: the two recovery scanners of pass 1 return for every input and stream state, never read past the input, and stop where they
 * promise: SkipInstance after the instance's `;` (SEVERITY_NULL exactly then), FindStartOfInstance in front of the next `#` */
extern "C" void h_skip_find_terminate()
{
    IN_ARR(char, in_txt, 5); IN(unsigned, in_len); IN(int, in_state); IN(int, in_which);
    __CPROVER_assume(in_len <= 5 && in_state >= 0 && in_state <= 7);
#define REC_ALPHA(c) ((c) == '#' || (c) == ';' || (c) == '\'' || (c) == 'x' || (c) == ' ')
    __CPROVER_assume(REC_ALPHA(in_txt[0]) && REC_ALPHA(in_txt[1]) && REC_ALPHA(in_txt[2]) && REC_ALPHA(in_txt[3]) && REC_ALPHA(in_txt[4]));
    g_stream_arbitrary = 0; g_stream_script[0] = in_txt[0]; g_stream_script[1] = in_txt[1]; g_stream_script[2] = in_txt[2]; g_stream_script[3] = in_txt[3]; g_stream_script[4] = in_txt[4]; g_stream_len = in_len;
    istream in; in._m_state = in_state; in._m_have = 0; in._m_consumed = 0;
    std::string got;
    if (in_which) {
        Severity s = SkipInstance(in, got);
        __CPROVER_assert(in._m_consumed <= in_len, "C05 the instance skipper returns without reading past the input");
        if (s == SEVERITY_NULL) __CPROVER_assert(in._m_consumed >= 1 && in_txt[in._m_consumed - 1] == ';', "C03 the instance skipper reports success exactly when it stopped behind a `;`");
    } else {
        Severity s = FindStartOfInstance(in, got);
        __CPROVER_assert(in._m_consumed <= in_len, "C05 the search for the next instance returns without reading past the input");
        if (s == SEVERITY_NULL) __CPROVER_assert(in._m_consumed < in_len && in_txt[in._m_consumed] == '#', "C03 the search for the next instance reports success exactly when it stopped in front of a `#`");
    }
}
