/* Unit pretty_entity_c (C extraction): the UNIQUE and INVERSE clause printers of exppp (C07: every rule / inverse attribute is printed
 * once, in order, with its own label, attributes, type and FOR attribute; C06: a UNIQUE rule's label is optional) */
#include <stdio.h>
#include <stdlib.h>
#include <string.h>
#include <stdarg.h>
#include <stdbool.h>
#include "verif.h"
#include "express/scope.h"
#include "express/expr.h"
#include "express/variable.h"
#include "express/linklist.h"
int indent2, curpos, exppp_nesting_indent = 2, exppp_continuation_indent = 4;
#define NOLEVEL (-1)
#define EV 20
static int g_n; static int g_kind[EV]; static const char *g_str[EV]; static void *g_ptr[EV];
/* kinds: 'U' "UNIQUE" header, 'I' "INVERSE" header, 'L' labelled head, 'N' unlabelled head, ',' separator, ';' terminator, 'E' EXPR_out, 'T' TYPE_head_out,
 * 'O' " OPTIONAL", 'F' " FOR ", 'w' other wrap (its text), ':' the name/type separator, 'i' indentation, '?' other */
static void rec(int k, const char *s, void *p) { if (g_n < EV) { g_kind[g_n] = k; g_str[g_n] = s; g_ptr[g_n] = p; } g_n++; }
void raw(const char *fmt, ...)
{   /* the formats are told apart by a few characters at fixed positions (each index is read only after the ones before it were non-NUL) */
    va_list ap; va_start(ap, fmt); int k = '?'; const char *a = 0;
    if (fmt[0] == ',') k = ','; else if (fmt[0] == ';') k = ';';
    else if (fmt[0] == ' ' && fmt[1] == 'F' && fmt[2] == 'O' && fmt[3] == 'R') k = 'F';
    else if (fmt[0] == '%' && fmt[1] == '-' && fmt[2] == '*' && fmt[3] == 's' && fmt[4] == ' ' && fmt[5] == ':') k = ':';
    else if (fmt[0] == '%' && fmt[1] == '*' && fmt[2] == 's') {
        if (fmt[3] == 0) k = 'i'; else if (fmt[3] == 'U' && fmt[4] == 'N' && fmt[5] == 'I') k = 'U'; else if (fmt[3] == 'I' && fmt[4] == 'N' && fmt[5] == 'V') k = 'I';
        else if (fmt[3] == '%' && fmt[4] == '-' && fmt[5] == '*' && fmt[6] == 's' && fmt[7] == ' ') {
            if (fmt[8] == ':') { (void)va_arg(ap, int); (void)va_arg(ap, const char *); (void)va_arg(ap, int); a = va_arg(ap, const char *); k = 'L'; }
            else if (fmt[8] == ' ') k = 'N';
        }
    }
    va_end(ap); rec(k, a, 0);
}
void wrap(const char *fmt, ...) { if (fmt[0] == ' ' && fmt[1] == 'O' && fmt[2] == 'P' && fmt[3] == 'T') rec('O', 0, 0); else rec('w', fmt, 0); }
void EXPR_out(Expression e, int p) { (void)p; rec('E', 0, e); }
void TYPE_head_out(Type t, int l) { (void)l; rec('T', 0, t); }
void *LISTget_first(Linked_List l) { return l->mark->next == l->mark ? (void *)0 : l->mark->next->data; }
#include "entity_extract.inc"

static struct Linked_List_ outer, rule, attrs; static struct Link_ om, o1, rm, r[3], am, a[2];
static Symbol lab; static char ln[4]; static struct Expression_ ex[2], vn[2], ivn[2]; static struct Variable_ v[2], iv[2]; static struct Scope_ ty[2]; static char an[2][2] = { "a", "b" }, fn[2][2] = { "f", "g" };
static int is(int i, int k) { return i < g_n && i < EV && g_kind[i] == k; }
void h_unique_inverse_out(void)
{
    IN(int, in_which);
    g_n = 0;
    if (in_which) {
        IN(int, in_label); IN(int, in_attrs); IN_ARR(char, in_l, 3);
        __CPROVER_assume(in_attrs >= 0 && in_attrs <= 2);
        for (int i = 0; i < 3; i++) ln[i] = in_l[i]; ln[3] = 0; lab.name = ln;
        outer.mark = &om; om.next = &o1; om.prev = &o1; o1.next = &om; o1.prev = &om; o1.data = &rule;
        int k = 1 + in_attrs; rule.mark = &rm; rm.next = &r[0]; rm.prev = &r[k - 1];
        for (int i = 0; i < 3; i++) if (i < k) { r[i].next = i + 1 < k ? &r[i + 1] : &rm; r[i].prev = i ? &r[i - 1] : &rm; r[i].data = i == 0 ? (in_label ? (void *)&lab : (void *)0) : (void *)&ex[i - 1]; }
        ENTITYunique_out(&outer, 2);
        int i = 0, ok = 1;
        ok &= is(i, 'U'); i++;
        ok &= is(i, in_label ? 'L' : 'N'); if (in_label) ok &= g_str[i] == ln; i++;
        for (int j = 0; j < 2; j++) if (j < in_attrs) { if (j > 0) { ok &= is(i, ','); i++; } ok &= is(i, 'E') && g_ptr[i] == &ex[j]; i++; }
        ok &= is(i, ';'); i++;
        __CPROVER_assert(ok && g_n == i, "C07 a UNIQUE clause is the keyword, then per rule its label (when it has one), its attributes in order separated by commas, and `;`");
    } else {
        IN(int, in_n); IN(int, in_inv0); IN(int, in_inv1); IN(int, in_opt0); IN(int, in_opt1);
        __CPROVER_assume(in_n >= 0 && in_n <= 2);
        attrs.mark = &am; am.next = in_n ? &a[0] : &am; am.prev = in_n ? &a[in_n - 1] : &am;
        int inv[2] = { in_inv0 != 0, in_inv1 != 0 }, opt[2] = { in_opt0 != 0, in_opt1 != 0 };
        for (int i = 0; i < 2; i++) {
            if (i < in_n) { a[i].next = i + 1 < in_n ? &a[i + 1] : &am; a[i].prev = i ? &a[i - 1] : &am; a[i].data = &v[i]; }
            v[i].name = &vn[i]; vn[i].symbol.name = an[i]; v[i].type = &ty[i]; v[i].flags.optional = opt[i];
            v[i].inverse_symbol = inv[i] ? &lab : (Symbol *)0; v[i].inverse_attribute = &iv[i]; iv[i].name = &ivn[i]; ivn[i].symbol.name = fn[i];
        }
        ENTITYinverse_out(&attrs, 2);
        int cnt = (in_n > 0 && inv[0]) + (in_n > 1 && inv[1]);
        if (cnt == 0) { __CPROVER_assert(g_n == 0, "no INVERSE attribute, no INVERSE clause"); return; }
        int i = 0, ok = 1;
        ok &= is(i, 'I'); i++;
        for (int j = 0; j < 2; j++) if (j < in_n && inv[j]) {
            ok &= is(i, 'i'); i++; ok &= is(i, 'E') && g_ptr[i] == &vn[j]; i++; ok &= is(i, ':'); i++;
            if (opt[j]) { ok &= is(i, 'O'); i++; }
            ok &= is(i, 'T') && g_ptr[i] == &ty[j]; i++; ok &= is(i, 'F'); i++;
            ok &= is(i, 'w') && g_str[i] == fn[j]; i++; ok &= is(i, ';'); i++;
        }
        __CPROVER_assert(ok && g_n == i, "C07 an INVERSE clause is the keyword, then per inverse attribute, in order: its name, OPTIONAL as declared, its type, FOR and the inverted attribute's name, `;` - other attributes are not printed here");
    }
}
