/* Unit scope_c (C extraction from scope.c): SCOPEfind / SCOPE_find, the look-up of a type, entity or function name from a scope.
 * C04: a name is visible exactly where EXPRESS makes it visible - in the scope chain up to the schema, through USE FROM (transitively: a
 * USEd schema re-exports what it USEs) and through REFERENCE FROM (only what the referenced schema itself declares, plus nothing it
 * merely imports); an undefined name must come back as not found, so that the resolver reports it */
#include <stdio.h>
#include <stdlib.h>
#include <string.h>
#include "verif.h"
#include "express/scope.h"
#include "express/schema.h"
#include "express/object.h"
char DICT_type; int __SCOPE_search_id;
struct Object OBJ[256];
Dictionary EXPRESSbuiltins;
static long d_e, d_h, d_r, d_u, d_x[8], d_builtin;      /* dictionaries: entity scope, H, R, U, and the (empty) use/ref dictionaries */
static int g_decl_in; static char g_decl_kind; static long g_obj;
void *DICTlookup(Dictionary d, char *name)
{
    (void)name;
    if ((d == (Dictionary)&d_e && g_decl_in == 0) || (d == (Dictionary)&d_h && g_decl_in == 1) || (d == (Dictionary)&d_r && g_decl_in == 2) || (d == (Dictionary)&d_u && g_decl_in == 3)) { DICT_type = g_decl_kind; return &g_obj; }
    return 0;
}
#include "scope_extract.inc"

static struct Scope_ ent, H, R, U; static struct Schema_ sh, sr, su; static struct Linked_List_ lu[3], lr[3]; static struct Link_ mu[3], mr[3], k_hr, k_ru;
static void empty(struct Linked_List_ *l, struct Link_ *m) { l->mark = m; m->next = m; m->prev = m; }
static void one(struct Linked_List_ *l, struct Link_ *m, struct Link_ *k, void *d) { l->mark = m; m->next = k; m->prev = k; k->next = m; k->prev = m; k->data = d; }
static void body(int h_uses_r)
{
    IN(int, in_decl); IN(int, in_kind); IN(int, in_want);
    __CPROVER_assume(in_decl >= 0 && in_decl <= 4);                              /* declared in: entity scope, H, R, U, nowhere */
    __CPROVER_assume(in_kind == OBJ_TYPE || in_kind == OBJ_ENTITY || in_kind == OBJ_FUNCTION);
    __CPROVER_assume(in_want == SCOPE_FIND_TYPE || in_want == SCOPE_FIND_ENTITY || in_want == (SCOPE_FIND_TYPE | SCOPE_FIND_ENTITY) || in_want == SCOPE_FIND_FUNCTION);
    OBJ[OBJ_TYPE].bits = OBJ_TYPE_BITS; OBJ[OBJ_ENTITY].bits = OBJ_ENTITY_BITS; OBJ[OBJ_FUNCTION].bits = OBJ_FUNCTION_BITS;
    ent.type = OBJ_ENTITY; ent.superscope = &H; ent.symbol_table = (Dictionary)&d_e; ent.search_id = 0;
    H.type = OBJ_SCHEMA; H.u.schema = &sh; H.symbol_table = (Dictionary)&d_h; H.search_id = 0;
    R.type = OBJ_SCHEMA; R.u.schema = &sr; R.symbol_table = (Dictionary)&d_r; R.search_id = 0;
    U.type = OBJ_SCHEMA; U.u.schema = &su; U.symbol_table = (Dictionary)&d_u; U.search_id = 0;
    for (int i = 0; i < 3; i++) { empty(&lu[i], &mu[i]); empty(&lr[i], &mr[i]); }
    sh.use_schemas = &lu[0]; sh.ref_schemas = &lr[0]; sr.use_schemas = &lu[1]; sr.ref_schemas = &lr[1]; su.use_schemas = &lu[2]; su.ref_schemas = &lr[2];
    sh.usedict = (Dictionary)&d_x[0]; sh.refdict = (Dictionary)&d_x[1]; sr.usedict = (Dictionary)&d_x[2]; sr.refdict = (Dictionary)&d_x[3]; su.usedict = (Dictionary)&d_x[4]; su.refdict = (Dictionary)&d_x[5];
    if (h_uses_r) one(&lu[0], &mu[0], &k_hr, &R); else one(&lr[0], &mr[0], &k_hr, &R);   /* H USEs / REFERENCEs all of R */
    one(&lu[1], &mu[1], &k_ru, &U);                                                         /* R USEs all of U */
    EXPRESSbuiltins = (Dictionary)&d_builtin;
    g_decl_in = in_decl; g_decl_kind = (char)in_kind; __SCOPE_search_id = 10;
    void *r = SCOPEfind(&ent, "x", in_want);
    int kind_ok = (in_kind == OBJ_TYPE && (in_want & SCOPE_FIND_TYPE)) || (in_kind == OBJ_ENTITY && (in_want & SCOPE_FIND_ENTITY)) || (in_kind == OBJ_FUNCTION && (in_want & SCOPE_FIND_FUNCTION));
    int te = (in_want & (SCOPE_FIND_TYPE | SCOPE_FIND_ENTITY)) != 0;
    if (in_decl == 4) { __CPROVER_assert(r == 0, "C04 a name that no schema declares is not found"); return; }
    if (in_decl <= 1) { __CPROVER_assert((r != 0) == (kind_ok != 0), "a name declared in the scope chain is found exactly when it is the kind of object asked for"); return; }
    if (h_uses_r) {
        /* USE FROM R: what R declares and what R itself USEs are visible (types and entities only) */
        if (te) __CPROVER_assert((r != 0) == (kind_ok != 0), "a type or entity of a fully USEd schema - or of a schema that one USEs in turn - is visible (as the kind of object asked for)");
        else __CPROVER_assert(r == 0, "USE FROM does not import functions");
    } else {
        /* REFERENCE FROM R: only what R itself declares */
        if (in_decl == 2) __CPROVER_assert(r == &g_obj, "an object that a fully REFERENCEd schema declares is visible");
        else __CPROVER_assert(r == 0, "C04 REFERENCE FROM is not transitive: what the referenced schema merely imports is NOT visible - a reference to it is an undefined name");
    }
}
void h_find_ref_chain(void) { body(0); }
void h_find_use_chain(void) { body(1); }
