/* Unit pretty_scope_c (C extraction): the alphabetical insertion that fixes exppp's emission order (C07: stable output; C12: the order is a
 * function of the names, never of addresses or of the order of an earlier pass) */
#include <stdio.h>
#include <stdlib.h>
#include <string.h>
#include <stdbool.h>
#include <stdint.h>
#include "verif.h"
#include "express/scope.h"
#include "express/variable.h"
#include "express/linklist.h"
static int g_add_calls; static Linked_List g_add_list; static Link g_add_before; static void *g_add_item;
void *LISTadd_before(Linked_List l, Link k, void *item) { g_add_calls++; g_add_list = l; g_add_before = k; g_add_item = item; return item; }
#include "scope_extract.inc"

static struct Linked_List_ lst; static struct Link_ mark, lk[2]; static struct Scope_ sc[2], snew; static char nm[3][3];
static struct Variable_ va[2], vnew; static struct Expression_ vn[3];
void h_add_inorder(void)
{
    IN(int, in_n); IN(int, in_vars); IN_ARR(char, in_a, 2); IN_ARR(char, in_b, 2); IN_ARR(char, in_c, 2);
    __CPROVER_assume(in_n >= 0 && in_n <= 2);
    for (int i = 0; i < 2; i++) { nm[0][i] = in_a[i]; nm[1][i] = in_b[i]; nm[2][i] = in_c[i]; }
    nm[0][2] = nm[1][2] = nm[2][2] = 0;
    if (in_n == 2) __CPROVER_assume(strcmp(nm[0], nm[1]) <= 0);        /* the list is sorted so far */
    /* list of in_n members */
    lst.mark = &mark; mark.next = in_n ? &lk[0] : &mark; mark.prev = in_n ? &lk[in_n - 1] : &mark;
    for (int i = 0; i < 2; i++) if (i < in_n) { lk[i].next = i + 1 < in_n ? &lk[i + 1] : &mark; lk[i].prev = i ? &lk[i - 1] : &mark; }
    g_add_calls = 0;
    if (!in_vars) {
        for (int i = 0; i < 2; i++) { sc[i].symbol.name = nm[i]; lk[i].data = &sc[i]; }
        snew.symbol.name = nm[2];
        SCOPEadd_inorder(&lst, &snew);
        __CPROVER_assert(g_add_item == &snew, "the new item is the one inserted");
    } else {
        for (int i = 0; i < 2; i++) { vn[i].symbol.name = nm[i]; va[i].name = &vn[i]; lk[i].data = &va[i]; }
        vn[2].symbol.name = nm[2]; vnew.name = &vn[2];
        SCOPEaddvars_inorder(&lst, &vnew);
        __CPROVER_assert(g_add_item == &vnew, "the new item is the one inserted");
    }
    /* spec: before the first member whose name is greater than the new name; at the end if there is none */
    Link want = 0;
    if (in_n >= 1 && strcmp(nm[2], nm[0]) < 0) want = &lk[0];
    else if (in_n == 2 && strcmp(nm[2], nm[1]) < 0) want = &lk[1];
    __CPROVER_assert(g_add_calls == 1 && g_add_list == &lst && g_add_before == want,
                     "C07/C12 an item is inserted once, before the first member with a greater name (at the end if none): the order is a function of the names alone, and a sorted list stays sorted");
}
