/* harness-form contracts for the Part 21 number readers/writer (C05, C09) */
#ifdef VERIF_TIER_THOROUGH
#define RN 11
#else
#define RN 9   /* script length bound */
#endif

static int is_ws(int c) { return c == ' ' || c == '\t' || c == '\n' || c == '\r' || c == '\f' || c == '\v'; }
static int is_dg(int c) { return c >= '0' && c <= '9'; }

/* spec of the scanner (from the Part 21 REAL grammar as the reader applies it):
 *   ws* sign? digit* ('.' digit*)? ([eE] sign? digit*)?        -- maximal prefix consumed
 * valid (ISO 10303-21): sign? digit+ '.' digit* ('E' sign? digit+)? */
struct real_spec { int ws; int len; int valid; };
static real_spec spec_real(const char *s, int n)
{
    real_spec r; int i = 0, k;
    while (i < n && is_ws(s[i])) i++;
    r.ws = i; r.valid = 1;
    if (i < n && (s[i] == '+' || s[i] == '-')) i++;
    k = i; while (i < n && is_dg(s[i])) i++;
    if (i == k) r.valid = 0;
    if (i < n && s[i] == '.') i++; else r.valid = 0;
    while (i < n && is_dg(s[i])) i++;
    if (i < n && (s[i] == 'e' || s[i] == 'E')) {
        if (s[i] == 'e') r.valid = 0;
        i++;
        if (i < n && (s[i] == '+' || s[i] == '-')) i++;
        k = i; while (i < n && is_dg(s[i])) i++;
        if (i == k) r.valid = 0;
    }
    r.len = i - r.ws;
    return r;
}

extern "C" void h_ReadReal_scan()
{
    IN_ARR(char, in_s, RN);
    IN(unsigned, in_len);
    IN(int, in_conv);
    __CPROVER_assume(in_len <= RN);
    for (int i = 0; i < RN; i++) g_stream_script[i] = in_s[i];
    g_stream_len = in_len; g_stream_arbitrary = 0;
    g_conv_ok = in_conv != 0; g_iss_calls = 0; g_cri_calls = 0;
    istream in; in._m_state = 0; in._m_have = 0; in._m_consumed = 0;
    ErrorDescriptor err;
    SDAI_Real val = 7.0;
    int assigned = ReadReal(val, in, &err, ",)");
    real_spec sp = spec_real(in_s, (int)in_len);
    __CPROVER_assert(g_cri_calls == 1 && g_iss_calls == 1, "ReadReal converts once and checks the remaining input once");
    __CPROVER_assert(g_cri_consumed == (unsigned long)(sp.ws + sp.len), "C09 ReadReal consumes exactly the numeric token: the delimiter that follows is never consumed");
    int same = 1;
    for (int i = 0; i < RN; i++) { if (i < sp.len && g_iss_text[i] != in_s[sp.ws + i]) same = 0; }
    __CPROVER_assert(same && g_iss_text[sp.len] == 0, "C09 the text handed to the numeric conversion is exactly the token read (no character lost, altered or added)");
    __CPROVER_assert(assigned == (in_conv != 0), "ReadReal reports whether a value was assigned");
    if (!sp.valid && assigned)
        __CPROVER_assert(g_cri_sev <= SEVERITY_WARNING, "C09 a token outside the REAL grammar that still yields a value raises an error on the attribute");
    if (!assigned)
        __CPROVER_assert(g_cri_sev <= SEVERITY_WARNING, "C09 a token that yields no value (malformed or not representable) raises an error instead of leaving the attribute silently unset");
}

/* C05: arbitrary stream content of any length: the scanner never writes outside its 64-byte token buffer */
extern "C" void h_ReadReal_safety()
{
    g_stream_arbitrary = 1;   /* an unbounded stream of arbitrary characters */
    g_conv_ok = nondet_int() != 0;
    istream in; in._m_state = 0; in._m_have = 0; in._m_consumed = 0;
    ErrorDescriptor err;
    SDAI_Real val = 0;
    ReadReal(val, in, &err, ",)");
}

/* spec predicate: strings sprintf("%.15G") can produce */
static int is_G_output(const char *r)
{
    int i = 0, nd = 0;
    if (r[i] == '-') i++;
    if (r[i] == 'I' || r[i] == 'N') return (r[i+1] == 'N' && (r[i+2] == 'F' || r[i+2] == 'A') == 0) ? 0 : (r[i+3] == 0);
    while (is_dg(r[i])) { i++; nd++; }
    if (nd == 0) return 0;
    if (r[i] == '.') { i++; int f = 0; while (is_dg(r[i])) { i++; f++; nd++; } if (f == 0) return 0; }
    if (nd > 15) return 0;
    if (r[i] == 'E') { i++; if (r[i] != '+' && r[i] != '-') return 0; i++; int e = 0; while (is_dg(r[i])) { i++; e++; } if (e < 2 || e > 3) return 0; }
    return r[i] == 0;
}
extern "C" void h_WriteReal()
{
    IN_ARR(char, in_r, 24);
    in_r[22] = 0; in_r[23] = 0;
    for (int i = 0; i < 24; i++) g_G_out[i] = in_r[i];
    __CPROVER_assume(is_G_output(g_G_out));
    __CPROVER_assume(g_G_out[0] != 'I' && g_G_out[0] != 'N' && g_G_out[1] != 'I' && g_G_out[1] != 'N'); /* finite values */
    g_sprintf_calls = 0;
    std::string s = WriteReal(0.0);
    __CPROVER_assert(g_sprintf_calls == 1, "WriteReal formats once");
    /* spec: r with a '.' inserted before the exponent (or at the end) iff r has none */
    int n = (int)strlen(g_G_out), dots = 0, lower = 0, hasdot = 0, epos = -1;
    for (int i = 0; i < n; i++) { if (g_G_out[i] == '.') hasdot = 1; if (g_G_out[i] == 'E') epos = i; }
    for (unsigned i = 0; i < s.size(); i++) { if (s[i] == '.') dots++; if (s[i] == 'e') lower++; }
    __CPROVER_assert(dots == 1 && lower == 0, "C09 a written REAL has exactly one decimal point and no lower-case e");
    int ins = hasdot ? -1 : (epos >= 0 ? epos : n);
    int ok = (int)s.size() == n + (hasdot ? 0 : 1);
    for (int i = 0; i < 24; i++) {
        if (i < (int)s.size()) {
            char want = ins < 0 ? g_G_out[i] : (i < ins ? g_G_out[i] : (i == ins ? '.' : g_G_out[i - 1]));
            if (s[i] != want) ok = 0;
        }
    }
    __CPROVER_assert(ok, "C09 a written REAL is the %.15G rendering with only the required decimal point inserted before the exponent");
}

/* must-fail canary (vacuity guard) for h_WriteReal: the assumed set of %.15G renderings is not empty and contains a rendering with an
 * exponent and without a decimal point (the case in which the point has to be inserted before the E), so the claim that WriteReal never
 * meets such a rendering has to be refuted */
extern "C" void h_canary_WriteReal_inputs()
{
    IN_ARR(char, in_r, 24);
    in_r[22] = 0; in_r[23] = 0;
    for (int i = 0; i < 24; i++) g_G_out[i] = in_r[i];
    __CPROVER_assume(is_G_output(g_G_out));
    __CPROVER_assume(g_G_out[0] != 'I' && g_G_out[0] != 'N' && g_G_out[1] != 'I' && g_G_out[1] != 'N');
    g_sprintf_calls = 0;
    std::string s = WriteReal(0.0);
    int n = (int)strlen(g_G_out), hasdot = 0, epos = -1;
    for (int i = 0; i < n; i++) { if (g_G_out[i] == '.') hasdot = 1; if (g_G_out[i] == 'E') epos = i; }
    __CPROVER_assert(!(g_sprintf_calls == 1 && epos > 0 && !hasdot), "canary: no rendering with an exponent and without a decimal point is ever written (must be refuted)");
}

/* C09/C03: INTEGER and NUMBER tokens: the value the conversion produced is the value stored; a token that converts to
 * nothing leaves the caller's value untouched and raises an error; what follows the token is judged by CheckRemainingInput,
 * once, with the caller's delimiter list */
extern "C" void h_ReadInteger_Number()
{
    IN(int, in_ok); IN(long, in_ival); IN(double, in_rval); IN(long, in_old); IN(int, in_which);
    g_stream_arbitrary = 1;
    istream in; in._m_state = 0; in._m_have = 0; in._m_consumed = 0;
    g_conv_ok = in_ok != 0; g_conv_int = in_ival; g_conv_real = in_rval; g_cri_calls = 0;
    ErrorDescriptor err; const char *delims = ",)";
    if (in_which) {
        SDAI_Integer v = in_old;
        int r = ReadInteger(v, in, &err, delims);
        if (in_ok) __CPROVER_assert(r == 1 && v == in_ival && err.severity() == SEVERITY_NULL, "C09 an INTEGER token is stored as exactly the value it converts to, without error");
        else __CPROVER_assert(r == 0 && v == in_old && err.severity() <= SEVERITY_WARNING, "C09/C03 a token that is no integer leaves the value alone and raises an error");
    } else {
        SDAI_Real v = 7.0;
        int r = ReadNumber(v, in, &err, delims);
        if (in_ok) __CPROVER_assert(r == 1 && (v == in_rval || in_rval != in_rval) && err.severity() == SEVERITY_NULL, "C09 a NUMBER token is stored as exactly the value it converts to, without error");
        else __CPROVER_assert(r == 0 && v == 7.0 && err.severity() <= SEVERITY_WARNING, "C09/C03 a token that is no number leaves the value alone and raises an error");
    }
    __CPROVER_assert(g_cri_calls == 1 && g_cri_delims == delims, "C09 what follows the token is checked once against the caller's delimiter list");
}

/* C05: ReadComment returns on every input - including a stream that ends (and keeps failing) at any point inside an open comment,
 * and a stream that never ends: every round of its loop either returns or advances the length counter.  The stream is arbitrary
 * (any character or end of input at every read; a failed read leaves the variable as it was, as in the library); the loop
 * bound is the scaled MAX_COMMENT_LENGTH, checked with unwinding assertions: a round that does not count makes them fail. */
extern "C" void h_ReadComment_terminates()
{
    IN(int, in_state); IN(int, in_which);
    __CPROVER_assume(in_state >= 0 && in_state <= 7);
    g_stream_arbitrary = 1;
    istream in; in._m_state = in_state; in._m_have = 0; in._m_consumed = 0;
    std::string s; g_skip_calls = 0;
    if (in_which) {
        const char *r = ReadComment(in, s);
        __CPROVER_assert(r == 0 || r == s.c_str(), "ReadComment returns nothing or the caller's buffer");
        __CPROVER_assert(g_skip_calls <= 1, "the recovery routine runs at most once, after the length limit");
    } else {
        Severity sv = ReadPcd(in);
        __CPROVER_assert(sv == SEVERITY_NULL || sv == SEVERITY_WARNING, "C05 a print control directive is read or a warning is returned, in at most four reads");
    }
}
