/* Unit read_func_cc (CXX-FN): WriteReal, ReadReal, ReadInteger, ReadNumber extracted from read_func.cc */
#define instmgr_h
#define EXPDICT_H
#include <stdio.h>
#include <string.h>
#include <ctype.h>
#include <iostream>
#include "cxx/verif_stream_model.h"
/* ---- recording stubs for the environment of the extracted functions ---- */
extern "C" {
  char g_iss_text[80]; int g_iss_calls;            /* text handed to the numeric conversion */
  int g_conv_ok;                                   /* arbitrary outcome of the libstdc++ conversion */
  unsigned long g_cri_consumed; int g_cri_calls; int g_cri_sev; const char *g_cri_delims; double g_conv_real = 1.0; long g_conv_int = 1;   /* stream position / severity when CheckRemainingInput is entered */
  int g_sprintf_calls;
  char g_G_out[24];                                 /* what sprintf("%.*G") "produced" */
}
static int verif_sprintf(char *dst, const char *fmt, int prec, double v);
#define sprintf verif_sprintf
#include "read_func_extract.inc"
#undef sprintf
/* ReadComment: scaled counter (see unit.json) and a stub for the recovery routine */
#undef MAX_COMMENT_LENGTH
#define MAX_COMMENT_LENGTH 6
static int g_skip_calls;
Severity SkipInstance(istream &, std::string &) { g_skip_calls++; return SEVERITY_NULL; }
#include "readcomment_extract.inc"
#include "src/clutils/errordesc.cc"
#include "verif.h"

extern "C" int nondet_int();
/* libc contract (assumed): "%.*G" with precision 15 writes at most 22 characters and a NUL */
static int verif_sprintf(char *dst, const char *fmt, int prec, double v)
{
    (void)fmt; (void)v;
    g_sprintf_calls++;
    __CPROVER_assert(prec == 15, "WriteReal formats with 15 significant digits");
    __CPROVER_assert(__CPROVER_OBJECT_SIZE(dst) - __CPROVER_POINTER_OFFSET(dst) >= 23,
                     "C05 WriteReal's buffer holds the longest %.15G rendering (22 characters + NUL)");
    int n = 0;
    while (n < 23 && g_G_out[n]) { dst[n] = g_G_out[n]; n++; }
    dst[n] = 0;
    return n;
}
namespace std {
istringstream::istringstream(const char *s) {
    _m_state = 0; _m_have = 0; _m_consumed = 0;
    g_iss_calls++;
    int i = 0; while (i < 79 && s[i]) { g_iss_text[i] = s[i]; i++; } g_iss_text[i] = 0;
}
/* contract of the library conversions (assumed): either a value is produced or failbit is set; the ghost values let a harness see which value was stored */
istream &istream::operator>>(double &d) { if (g_conv_ok) { d = g_conv_real; } else { _m_state |= failbit; } return *this; }
istream &istream::operator>>(long &d) { if (g_conv_ok) { d = g_conv_int; } else { _m_state |= failbit; } return *this; }
}
Severity CheckRemainingInput(istream &in, ErrorDescriptor *err, const char *typeName, const char *delims)
{
    (void)typeName; g_cri_delims = delims;
    g_cri_calls++; g_cri_consumed = in._m_consumed - (in._m_have ? 0 : 0); g_cri_sev = err->severity();
    return err->severity();
}
Severity CheckRemainingInput(istream &in, ErrorDescriptor *err, const std::string typeName, const char *delims)
{
    return CheckRemainingInput(in, err, typeName.c_str(), delims);
}
/* <string.h> in C++ mode declares strchr overloads that cbmc's C library does not provide: model with ISO semantics */
char *strchr(char *s, int c) { for (;; s++) { if (*s == (char)c) return s; if (*s == 0) return 0; } }
#include "harnesses.cc"
