/* Unit aggregate_cc (CXX-FN): generic aggregate reader/writer extracted from STEPaggregate.cc */
#define instmgr_h
#define EXPDICT_H
#define private public
#define protected public
#include <iostream>
#include <sstream>
#include "cxx/verif_stream_model.h"
#include "clstepcore/sdai.h"
#include "repo/expdict_iface.h"
#include "clstepcore/STEPaggregate.h"
#include "clutils/Str.h"
#include <stdio.h>
#include <stdlib.h>

/* ---- models of the list and element primitives (contract stubs of the replaced virtual calls) ---- */
static STEPnode *g_nodes[4]; static int g_new_calls, g_list_n; static STEPnode *g_list[4];
static int g_read_calls; static Severity g_read_sev[4]; static const char *g_tok[4];
static SingleLinkNode *verif_NewNode(STEPaggregate *) { STEPnode *n = g_new_calls < 4 ? g_nodes[g_new_calls] : 0; g_new_calls++; return n; }
static void verif_node_STEPread(STEPnode *, istream &in, ErrorDescriptor *e) { /* an element reader consumes its token (here: one character) */
    if (g_read_calls < 4) e->GreaterSeverity(g_read_sev[g_read_calls]); g_read_calls++; in.get(); }
static const char *verif_node_STEPwrite(STEPnode *n, std::string &, const char *) { for (int i = 0; i < 4; i++) if (g_list[i] == n) return g_tok[i]; return 0; }
static SingleLinkNode *verif_NextNode(STEPnode *n) { for (int i = 0; i < 3; i++) if (g_list[i] == n) return i + 1 < g_list_n ? g_list[i + 1] : 0; return 0; }
static void verif_AppendNode(STEPaggregate *a, SingleLinkNode *n) { if (g_list_n < 4) g_list[g_list_n] = (STEPnode *)n; if (g_list_n == 0) a->head = n; g_list_n++; }
static void verif_ListEmpty(STEPaggregate *a) { g_list_n = 0; a->head = 0; }
#include "aggregate_extract.inc"
#include "src/clutils/errordesc.cc"
#undef private
#undef protected
#include "verif.h"
/* contract stub (under contract in unit str_cc): garbage between an element and its delimiter is added to the descriptor it is given */
static int g_cri_calls; static Severity g_cri_sev[4];
Severity CheckRemainingInput(istream &, ErrorDescriptor *e, const char *, const char *) { if (g_cri_calls < 4) e->GreaterSeverity(g_cri_sev[g_cri_calls]); g_cri_calls++; return e->severity(); }
Severity CheckRemainingInput(istream &in, ErrorDescriptor *e, const std::string t, const char *d) { return CheckRemainingInput(in, e, t.c_str(), d); }

static STEPaggregate *mk_aggr() { STEPaggregate *a = (STEPaggregate *)malloc(sizeof(STEPaggregate)); a->head = 0; a->tail = 0; for (int i = 0; i < 4; i++) g_nodes[i] = (STEPnode *)malloc(sizeof(STEPnode)); return a; }

/* C01/C03: "(...)" is read element by element, in order; "()" yields a set, empty aggregate; "$" an unset one; a missing ")" is an error */
extern "C" void h_ReadValue()
{
    IN(int, in_shape); IN(int, in_wasnull); IN(int, in_es0); IN(int, in_es1); IN(int, in_cs0); IN(int, in_cs1);
    STEPaggregate *a = mk_aggr();
    TypeDescriptor *td = (TypeDescriptor *)malloc(8);
    __CPROVER_assume(in_shape >= 0 && in_shape < 6);
    const char *txt[6] = { "()", "( )", "(x)", "(x,y)", "$", "(x" };
    g_stream_arbitrary = 0; int n = 0; while (txt[in_shape][n]) { g_stream_script[n] = txt[in_shape][n]; n++; } g_stream_len = n;
    istream in; in._m_state = 0; in._m_have = 0; in._m_consumed = 0;
    a->_null = in_wasnull != 0; g_list_n = 0; g_new_calls = 0; g_read_calls = 0; for (int i = 0; i < 4; i++) { g_read_sev[i] = SEVERITY_NULL; g_cri_sev[i] = SEVERITY_NULL; }
    /* what the element readers and the check for garbage before the delimiter report for elements 0 and 1 */
#define SEV_OK(x) ((x) == SEVERITY_NULL || (x) == SEVERITY_USERMSG || (x) == SEVERITY_INCOMPLETE || (x) == SEVERITY_WARNING || (x) == SEVERITY_INPUT_ERROR)
    __CPROVER_assume(SEV_OK(in_es0) && SEV_OK(in_es1) && SEV_OK(in_cs0) && SEV_OK(in_cs1));
    g_read_sev[0] = (Severity)in_es0; g_read_sev[1] = (Severity)in_es1; g_cri_sev[0] = (Severity)in_cs0; g_cri_sev[1] = (Severity)in_cs1; g_cri_calls = 0;
    int e0 = in_es0 < in_cs0 ? in_es0 : in_cs0, e1 = in_es1 < in_cs1 ? in_es1 : in_cs1;     /* worst report per element */
    ErrorDescriptor err;
    Severity s = a->STEPaggregate::ReadValue(in, &err, td, 0, 0, 1, 1, 0);
    if (in_shape <= 1) {
        __CPROVER_assert(!a->_null && g_list_n == 0 && s == SEVERITY_NULL, "C01 an empty aggregate value () is read as a SET aggregate with no elements (not as an unset one)");
        __CPROVER_assert(in._m_consumed == (unsigned long)n, "the closing parenthesis is consumed");
    } else if (in_shape == 2 || in_shape == 3) {
        int k = in_shape - 1;
        __CPROVER_assert(!a->_null && g_list_n == k && g_new_calls == k && g_read_calls == k, "C01 every element of an aggregate value is read once into a new node");
        __CPROVER_assert(g_list[0] == g_nodes[0] && (k < 2 || g_list[1] == g_nodes[1]), "C01 the elements of an aggregate keep their order");
        int worst = (k < 2 || e0 < e1) ? e0 : e1;
        __CPROVER_assert(in._m_consumed == (unsigned long)n, "an aggregate value is read up to and including its closing parenthesis, whatever its elements report");
        if (worst >= SEVERITY_INCOMPLETE) __CPROVER_assert(s == SEVERITY_NULL, "a well-formed aggregate value is read without error");
        else __CPROVER_assert((int)s <= worst && (int)err.severity() <= worst, "C03 an element of the wrong literal kind, or garbage before its delimiter (a warning or worse from the element reader or the delimiter check), makes the aggregate's read at least as bad - at any element position");
    } else if (in_shape == 4) {
        __CPROVER_assert(a->_null && s == SEVERITY_INCOMPLETE && g_list_n == 0, "C01 $ is read as an unset aggregate");
    } else {
        __CPROVER_assert(s <= SEVERITY_INPUT_ERROR, "C03 an unterminated aggregate value is an input error");
    }
}

/* C01: writer: '$' iff unset, else '(' tok1 ',' tok2 ... ')' with the elements' own tokens in list order */
extern "C" void h_STEPwrite()
{
    IN(int, in_n); IN(int, in_null);
    STEPaggregate *a = mk_aggr();
    static const char t0[] = "A", t1[] = "B", t2[] = "C";
    __CPROVER_assume(in_n >= 0 && in_n <= 3);
    g_list_n = in_n; for (int i = 0; i < 4; i++) g_list[i] = g_nodes[i];
    g_tok[0] = t0; g_tok[1] = t1; g_tok[2] = t2;
    a->head = in_n ? g_nodes[0] : 0; a->_null = in_null != 0;
    __CPROVER_assume(!(in_null && in_n));       /* representation invariant: an unset aggregate has no nodes */
    ostream out; out._m_written = 0;
    a->STEPaggregate::STEPwrite(out, 0);
    if (in_null) __CPROVER_assert(out._m_written == 1 && out._m_logc[0] == '$', "C01 an unset aggregate is written as $");
    else {
        __CPROVER_assert(out._m_written == (unsigned long)(in_n ? 2 * in_n + 1 : 2), "C01 a set aggregate is written as ( elements separated by single commas )");
        __CPROVER_assert(out._m_logc[0] == '(' && out._m_logc[out._m_written - 1] == ')', "C01 a set aggregate is written between parentheses, () when empty");
        for (int i = 0; i < 3; i++) if (i < in_n) {
            __CPROVER_assert(out._m_logc[1 + 2 * i] == 'S' && out._m_logs[1 + 2 * i] == g_tok[i], "C01 the i-th element written is the i-th element's own token");
            if (i + 1 < in_n) __CPROVER_assert(out._m_logc[2 + 2 * i] == ',', "C01 elements are separated by one comma");
        }
    }
}
