/* Unit scanner_cc (CXX-FN): notGenerated() of the configure-time schema scanner */
#include <stdbool.h>
#include "express/scope.h"
#include "express/type.h"
#include "scanner_extract.inc"
#include "verif.h"
#include "../c17_spec.h"

void h_notGenerated(void)
{
    IN(int, in_kind); IN(int, in_renamed);
    static struct Scope_ ts; static struct TypeHead_ tt; static struct TypeBody_ tb; static struct Scope_ headt;
    __CPROVER_assume(c17_in_domain(in_kind));
    ts.u.type = &tt; tt.body = &tb; tt.head = in_renamed ? &headt : 0;
    tb.type = (enum type_enum)in_kind;
    bool listed = !notGenerated(&ts);
    __CPROVER_assert(listed == c17_has_own_files(in_kind, in_renamed != 0), "C17 the scanner lists type/<name>.h/.cc exactly for the types that get their own files (non-renamed enumerations and selects)");
}
