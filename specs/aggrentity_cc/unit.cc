/* Unit aggrentity_cc (CXX-FN): EntityNode::STEPread extracted from STEPaggrEntity.cc */
#define instmgr_h
#define EXPDICT_H
#define private public
#define protected public
#include <iostream>
#include <sstream>
#include "cxx/verif_stream_model.h"
#include "clstepcore/sdai.h"
#include "repo/expdict_iface.h"
#include "clstepcore/STEPaggrEntity.h"
#include "clstepcore/STEPattribute.h"
#include "aggrentity_extract.inc"
#include "src/clutils/errordesc.cc"
#undef private
#undef protected
#include <stdlib.h>
#include "verif.h"

static SDAI_Application_instance *g_ref_result; static Severity g_evl_result; static int g_add, g_evl_calls; static InstMgrBase *g_im; static const TypeDescriptor *g_evl_desc;
SDAI_Application_instance *ReadEntityRef(istream &, ErrorDescriptor *, const char *, InstMgrBase *instances, int addFileId) { g_add = addFileId; g_im = instances; return g_ref_result; }
/* contract of EntityValidLevel: the result is also raised on the descriptor it is given */
Severity EntityValidLevel(SDAI_Application_instance *, const TypeDescriptor *ed, ErrorDescriptor *err) { g_evl_calls++; g_evl_desc = ed; if (g_evl_result != SEVERITY_NULL) err->GreaterSeverity(g_evl_result); return g_evl_result; }

extern "C" void h_EntityNode_STEPread()
{
    IN(int, in_found); IN(int, in_evl); IN(int, in_add); IN(int, in_prev);
    EntityNode *n = (EntityNode *)malloc(sizeof(EntityNode));
    SDAI_Application_instance *some = (SDAI_Application_instance *)malloc(sizeof(SDAI_Application_instance));
    InstMgrBase *im = (InstMgrBase *)malloc(8); TypeDescriptor *td = (TypeDescriptor *)malloc(8);
    __CPROVER_assume(in_evl >= SEVERITY_BUG && in_evl <= SEVERITY_NULL && in_evl != SEVERITY_USERMSG && in_evl != SEVERITY_INCOMPLETE);
    __CPROVER_assume(in_prev >= SEVERITY_BUG && in_prev <= SEVERITY_NULL);
    g_ref_result = in_found ? some : S_ENTITY_NULL; g_evl_result = (Severity)in_evl; g_evl_calls = 0;
    n->node = some;
    ErrorDescriptor err; err.severity((Severity)in_prev);      /* the aggregate's descriptor as left by earlier elements */
    g_stream_arbitrary = 1; istream in; in._m_state = 0; in._m_have = 0; in._m_consumed = 0;
    Severity s = n->EntityNode::STEPread(in, &err, td, im, in_add);   /* non-virtual call of the extracted overload */
    __CPROVER_assert(g_add == in_add && g_im == im, "C14 an aggregate element reference is looked up with the caller's id offset in the caller's instance manager");
    if (in_found && in_evl == SEVERITY_NULL) __CPROVER_assert(n->node == some, "an element reference of the right type is stored");
    else __CPROVER_assert(n->node == S_ENTITY_NULL, "C03 a missing instance or one of the wrong type is not stored as an aggregate element");
    if (in_found) __CPROVER_assert(g_evl_calls == 1 && g_evl_desc == td, "C03 an aggregate element reference is checked against the aggregate's element type");
    if (in_found && in_evl != SEVERITY_NULL) __CPROVER_assert(s <= (Severity)in_evl && err.severity() <= (Severity)in_evl, "C03 an aggregate element of the wrong entity type leaves an error at least as severe as the type check's on the aggregate");
    __CPROVER_assert(err.severity() <= (Severity)in_prev, "C03 reading one more element never improves the severity already recorded");
}
