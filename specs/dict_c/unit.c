/* Unit dict_c: src/express/dict.c compiled unmodified (Route C) */
#include <stdio.h>
#include <stdlib.h>
#include <string.h>
#include <stdarg.h>
#include "verif.h"
#include "src/express/dict.c"

int g_rep_calls, g_rep_errnum, g_rep_line, g_sub_calls; Symbol *g_rep_sym; const void *g_rep_name, *g_rep_file;
void ERRORreport_with_symbol(enum ErrorCode errnum, Symbol *sym, ...)
{
    va_list ap; va_start(ap, sym);
    g_rep_calls++; g_rep_errnum = errnum; g_rep_sym = sym;
    g_rep_name = va_arg(ap, const void *); g_rep_line = va_arg(ap, int);
    if (errnum == DUPLICATE_DECL_DIFF_FILE) g_rep_file = va_arg(ap, const void *);
    va_end(ap);
}
void ERRORreport(enum ErrorCode errnum, ...) { if (errnum == SUBORDINATE_FAILED) g_sub_calls++; else g_rep_calls += 100; }
Element g_existing;
Element HASHsearch(Hash_Table t, Element item, Action a) { (void)t; (void)item; __CPROVER_assert(a == HASH_INSERT, "definitions are inserted"); return g_existing; }

/* C04-E4: a second non-enumeration declaration of a name in one scope is rejected with the ERROR-class DUPLICATE_DECL
 * diagnostic (return 1); C20: the diagnostic is attributed to the new symbol and quotes the duplicated name and where
 * the previous declaration was */
void h_DICTdefine(void)
{
    IN(int, in_exists); IN(int, in_type); IN(int, in_oldtype); IN(int, in_samefile); IN(int, in_oldline); IN(int, in_which);
    static struct Element_ old; static Symbol sym, oldsym; static char name[2] = "n", f1[2] = "a", f2[2] = "b";
    __CPROVER_assume(in_type == OBJ_ENTITY || in_type == OBJ_TYPE || in_type == OBJ_ENUM || in_type == OBJ_FUNCTION || in_type == OBJ_VARIABLE);
    __CPROVER_assume(in_oldtype == OBJ_ENTITY || in_oldtype == OBJ_TYPE || in_oldtype == OBJ_ENUM || in_oldtype == OBJ_AMBIG_ENUM || in_oldtype == OBJ_VARIABLE);
    old.symbol = &oldsym; old.type = (char)in_oldtype; oldsym.line = in_oldline; oldsym.filename = in_samefile ? f1 : f2; sym.filename = f1;
    g_existing = in_exists ? &old : 0;
    g_rep_calls = g_sub_calls = 0; g_rep_file = 0;
    int r = in_which ? DICT_define(0, name, 0, &sym, (char)in_type) : DICTdefine(0, name, 0, &sym, (char)in_type);
    int old_is_enum = in_oldtype == OBJ_ENUM || in_oldtype == OBJ_AMBIG_ENUM;
    int dup = in_exists && (in_which || (in_type != OBJ_ENUM && !old_is_enum));
    if (dup) {
        __CPROVER_assert(r == 1 && g_rep_calls == 1 && g_rep_errnum == (in_samefile ? DUPLICATE_DECL : DUPLICATE_DECL_DIFF_FILE), "C04 a duplicate declaration in one scope is rejected with the ERROR-class duplicate-declaration diagnostic");
        __CPROVER_assert(g_rep_sym == &sym && g_rep_name == (const void *)name && g_rep_line == in_oldline, "C20 the duplicate-declaration diagnostic is attributed to the new symbol and quotes the duplicated name and the line of the previous declaration");
        if (!in_samefile) __CPROVER_assert(g_rep_file == (const void *)f2, "C20 a duplicate across files names the file of the previous declaration");
    } else {
        __CPROVER_assert(r == 0 && g_rep_calls == 0, "a new name (or an enumeration item sharing a name as the standard allows) is accepted silently");
    }
}
