/* Unit hash_c: src/express/hash.c compiled unmodified (Route C) */
#include <stdio.h>
#include <stdlib.h>
#include <string.h>
#include "verif.h"
#include "src/express/hash.c"

#ifdef VERIF_TIER_THOROUGH
#define KN 8
#else
#define KN 6
#endif
/* C12: the bucket of a key depends on the key's characters and the table geometry only, never on where they are stored */
void h_hash_noninterference(void)
{
    IN_ARR(char, in_a, KN + 1);
    IN(unsigned, in_p); IN(unsigned, in_maxp);
    char b[KN + 1];
    in_a[KN] = 0;
    for (int i = 0; i <= KN; i++) b[i] = in_a[i];
    /* a few concrete table geometries (a symbolic modulus makes the SAT problem intractable; the point here is
       independence from addresses, not from the geometry) */
    __CPROVER_assume((in_maxp == 1 || in_maxp == 4 || in_maxp == 1024 || in_maxp == 131072) && (in_p == 0 || in_p == in_maxp - 1));
    struct Hash_Table_ ta, tb;
    memset(&ta, 0, sizeof ta); memset(&tb, 0x5a, sizeof tb);       /* everything but the geometry differs */
    ta.p = tb.p = in_p; ta.maxp = tb.maxp = in_maxp;
    Address ha = HASHhash(in_a, &ta);
    Address hb = HASHhash(b, &tb);
    __CPROVER_assert(ha == hb, "C12 equal keys in equal table geometries hash to the same bucket wherever they are stored");
}
VERIF_MAIN()
