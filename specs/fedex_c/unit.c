/* Unit fedex_c: src/express/fedex.c (the tools' common main) compiled unmodified (Route C) */
#include <stdio.h>
#include <stdlib.h>
#include <string.h>
#include <stdbool.h>
#include "verif.h"
#include "express/scope.h"   /* first inclusion must be the rewritten copy (union -> struct), see unit.json */
#define main fedex_main
#include "src/express/fedex.c"
#undef main
#include "hook_cxx.inc"
#include "hook_py.inc"

int nondet_int(void);
/* ---- contract stubs: parser, resolver, back end may raise the verdict flag, never clear it ---- */
int g_parse_calls, g_resolve_calls, g_backend_calls, g_err_after_parse, g_err_after_resolve, g_err_after_backend;
bool ERRORoccurred; bool __ERROR_buffer_errors; int ERRORdebugging, debug, print_objects_while_running; void (*ERRORusage_function)(void);
char *EXPRESSprogram_name; char *input_filename; void (*EXPRESSinit_args)(int, char **); void (*EXPRESSinit_parse)(void);
int (*EXPRESSfail)(Express); int (*EXPRESSsucceed)(Express); void (*EXPRESSbackend)(Express); int (*EXPRESSgetopt)(int, char *);
static struct Scope_ the_model;
void EXPRESSinit_init(void) { }
Express EXPRESScreate(void) { return &the_model; }
void EXPRESSparse(Express m, FILE *fp, char *fn) { (void)m; (void)fp; (void)fn; g_parse_calls++; if (g_err_after_parse) ERRORoccurred = true; }
void EXPRESSresolve(Express m) { (void)m; g_resolve_calls++; if (g_err_after_resolve) ERRORoccurred = true; }
static void backend(Express m) { (void)m; g_backend_calls++; if (g_err_after_backend) ERRORoccurred = true; }
int EXPRESS_fail(Express m) { (void)m; int r = nondet_int(); __CPROVER_assume(r != 0); return r; }   /* contract: unit express_c/h_EXPRESS_fail */
int EXPRESS_succeed(Express m) { if (EXPRESSsucceed) return (*EXPRESSsucceed)(m); return 0; }          /* as in express.c (h_EXPRESS_fail) */
void ERRORset_all_warnings(bool w) { (void)w; }
void ERRORset_warning(char *n, bool w) { (void)n; (void)w; }

/* C04-E3: exit status 0 iff no ERROR-class diagnostic was reported in any phase; the back end is not run after a failed
 * parse or resolve (no output artefact is presented as a success) */
void h_main_verdict(void)
{
    IN(int, in_p); IN(int, in_r); IN(int, in_b); IN(int, in_tool);
    static char a0[] = "prog", a1[] = "f.exp"; static char *argv[3] = { a0, a1, 0 };
    g_err_after_parse = in_p != 0; g_err_after_resolve = in_r != 0; g_err_after_backend = in_b != 0;
    g_parse_calls = g_resolve_calls = g_backend_calls = 0;
    ERRORoccurred = false; EXPRESSfail = 0; EXPRESSbackend = backend; EXPRESSinit_args = 0; EXPRESSinit_parse = 0; EXPRESSgetopt = 0; input_filename = 0;
    __CPROVER_assume(in_tool >= 0 && in_tool < 3);
    EXPRESSsucceed = in_tool == 0 ? 0 : in_tool == 1 ? success_exp2cxx : success_exp2python;   /* check-express/exppp, exp2cxx, exp2python */
    int rc = fedex_main(2, argv);
    bool any = in_p || (!in_p && in_r) || (!in_p && !in_r && in_b);
    __CPROVER_assert((rc != 0) == any, "C04 the exit status is non-zero exactly when an ERROR-class diagnostic was reported while parsing, resolving or generating");
    __CPROVER_assert(g_parse_calls == 1, "the input is parsed once");
    if (in_p) __CPROVER_assert(g_resolve_calls == 0 && g_backend_calls == 0, "C04 after a failed parse nothing is resolved or generated");
    if (!in_p && in_r) __CPROVER_assert(g_backend_calls == 0, "C04 after a failed resolution no output is generated");
    if (!in_p && !in_r) __CPROVER_assert(g_backend_calls == 1, "a resolved schema is handed to the back end once");
}
