/* Unit lexact_c: src/express/lexact.c compiled unmodified (Route C), harness form.
 * The reporters, dictionary look-up, symbol constructor and stdio are external to lexact.c and
 * are given recording stubs / models of their contracts here. */
#include <stdio.h>
#include <stdlib.h>
#include <stdarg.h>
#include <string.h>
#include <ctype.h>
#include <stdbool.h>
#include "verif.h"

static FILE *verif_fopen(const char *path, const char *mode);
static int verif_fclose(FILE *f);
static int verif_fprintf(FILE *f, const char *fmt, ...);
#define fopen verif_fopen
#define fclose verif_fclose
#define fprintf verif_fprintf
#include "src/express/lexact.c"
#undef fopen
#undef fclose
#undef fprintf

int nondet_int(void);
/* ---- ghost record of the last line-numbered diagnostic ---- */
int g_rep_calls, g_rep_errnum, g_rep_line;
long g_rep_arg1;            /* first variadic argument read as an integer (char / count) */
const void *g_rep_ptr1;     /* first variadic argument read as a pointer (text) */
int g_rep_first_bad; int g_rep_bad_seen;   /* first BAD_DIGIT character reported */
int g_rep_nargs_wanted;     /* conversions in the table format of the code (spec: error.c LibErrors[]) */

YYSTYPE yylval;
int yylineno;
const char *current_filename = "f.exp";
int print_objects_while_running;

void ERRORreport_with_line(enum ErrorCode errnum, int line, ...)
{
    va_list ap;
    va_start(ap, line);
    g_rep_calls++;
    g_rep_errnum = errnum;
    g_rep_line = line;
    /* formats per LibErrors[] (spec, checked against the table in unit error_c_h/h_formats):
       ENCODED_STRING_BAD_DIGIT "%c", ENCODED_STRING_BAD_COUNT "%d", INCLUDE_FILE "%s",
       BAD_IDENTIFIER "%s", UNEXPECTED_CHARACTER "%c", NONASCII_CHAR "%x" */
    if (errnum == ENCODED_STRING_BAD_DIGIT) {
#ifdef VERIF_NATIVE
        g_rep_arg1 = (char)va_arg(ap, int);
#else
        g_rep_arg1 = va_arg(ap, char); /* CBMC keeps the unpromoted type of a variadic argument */
#endif
        if (!g_rep_bad_seen) { g_rep_bad_seen = 1; g_rep_first_bad = (int)g_rep_arg1; }
    } else if (errnum == ENCODED_STRING_BAD_COUNT) {
        g_rep_arg1 = va_arg(ap, int);
    } else if (errnum == INCLUDE_FILE) {
        g_rep_ptr1 = va_arg(ap, const void *);
    }
    va_end(ap);
}

/* model of fopen: may fail */
static FILE verif_file_obj;
int g_fopen_result;
static FILE *verif_fopen(const char *path, const char *mode) { (void)path; (void)mode; return g_fopen_result ? &verif_file_obj : (FILE *)0; }
static int verif_fclose(FILE *f) { (void)f; return 0; }
static int verif_fprintf(FILE *f, const char *fmt, ...) { (void)f; (void)fmt; return 0; }

/* DICTlookup on the keyword dictionary: returns NULL or one of the keyword entries (its contract) */
void *DICTlookup(Dictionary d, char *name)
{
    (void)d; (void)name;
#ifndef VERIF_NATIVE
    unsigned k;
    if (nondet_int()) return 0;
    __CPROVER_assume(k < sizeof keywords / sizeof keywords[0] - 1);
    return &keywords[k];
#else
    return 0;
#endif
}
static Symbol verif_symbol;
Symbol *SYMBOLcreate(char *name, int line, const char *filename)
{
    verif_symbol.name = name; verif_symbol.line = line; verif_symbol.filename = filename;
    return &verif_symbol;
}
#ifdef VERIF_NATIVE
Hash_Table HASHcreate(unsigned n) { (void)n; return 0; }
int DICTdefine(Dictionary d, char *n, void *o, Symbol *s, char t) { (void)d;(void)n;(void)o;(void)s;(void)t; return 0; }
#endif

#include "harnesses.c"
VERIF_MAIN()
