/* harness-form contracts for the scanner helper routines of lexact.c (C06, C20) */
#ifndef VSN
#ifdef VERIF_TIER_THOROUGH
#define VSN 14
#else
#define VSN 12
#endif            /* token text bound for the generic string walkers */
#endif
#define LONGN 300        /* > SCAN_COMMENT_LENGTH: comment texts */

static int is_hex(int c) { return (c >= '0' && c <= '9') || (c >= 'a' && c <= 'f') || (c >= 'A' && c <= 'F'); }

/* C06 + C20: encoded string literal "...." */
void h_encoded_string(void)
{
    IN_ARR(char, in_text, VSN + 1);
    IN(int, in_lineno);
    in_text[VSN] = 0;
    __CPROVER_assume(in_text[0] == '"');
    yylineno = in_lineno;
    g_rep_calls = 0; g_rep_bad_seen = 0;
    /* spec: the digits are the text after the opening quote up to the last quote (or the end) */
    int n = 0, last = -1, i;
    for (i = 1; i <= VSN && in_text[i]; i++) if (in_text[i] == '"') last = i;
    int end = last >= 0 ? last : i;
    int first_bad = -1; char bad_char = 0;
    for (int j = 1; j < end; j++) if (!is_hex(in_text[j]) && first_bad < 0) { first_bad = 1; bad_char = in_text[j]; }
    n = end - 1;
    int tok = SCANprocess_encoded_string(in_text);
    __CPROVER_assert(tok == TOK_STRING_LITERAL_ENCODED, "token kind");
    if (first_bad >= 0)
        __CPROVER_assert(g_rep_bad_seen && g_rep_first_bad == bad_char, "C20 bad-digit diagnostic quotes the first offending character of the literal");
    else
        __CPROVER_assert(!g_rep_bad_seen, "C20 no bad-digit diagnostic for an all-hex literal");
    if (n % 8 != 0)
        __CPROVER_assert(g_rep_errnum == ENCODED_STRING_BAD_COUNT && g_rep_arg1 == n && g_rep_line == in_lineno,
                         "C20 bad-count diagnostic quotes the number of digits of the literal and the current line");
    else
        __CPROVER_assert(g_rep_calls == 0 || g_rep_errnum != ENCODED_STRING_BAD_COUNT, "C20 no bad-count diagnostic when the digit count is a multiple of 8");
    free(yylval.string);
}

/* C06: simple string literal '....' (quote pairs collapse) */
#define STRN 8
void h_string(void)
{
    IN_ARR(char, in_text, STRN + 1);
    in_text[STRN] = 0;
    __CPROVER_assume(in_text[0] == '\'');
    int tok = SCANprocess_string(in_text);
    __CPROVER_assert(tok == TOK_STRING_LITERAL, "token kind");
    __CPROVER_assert(strlen(yylval.string) <= strlen(in_text), "C06 collapsed string is not longer than its source text");
    free(yylval.string);
}

/* C06: semicolon followed by a tail remark "; -- text": the remark is kept in a 256-byte buffer */
void h_semicolon(void)
{
    char in_text[LONGN + 1];
    IN(int, in_commentp);
    IN(unsigned, in_dash);
    IN(unsigned, in_len);
    /* text = ";" blanks "--" remark: symbolic length and dash position, remark characters fixed to 'x'
       (copying does not depend on the character values) */
    __CPROVER_assume(in_len <= LONGN && in_dash + 1 < in_len);
    for (unsigned i = 0; i <= LONGN; i++)
        in_text[i] = i >= in_len ? 0 : (i == in_dash || i == in_dash + 1) ? '-' : (i < in_dash ? ' ' : 'x');
    int tok = SCANprocess_semicolon(in_text, in_commentp);
    __CPROVER_assert(tok == TOK_SEMICOLON, "token kind");
    if (in_commentp) {
        __CPROVER_assert(yylval.string == last_comment_, "remark is handed over in the remark buffer");
        __CPROVER_assert(last_comment_[SCAN_COMMENT_LENGTH - 1] == 0, "C06 remark buffer stays NUL-terminated");
    }
}

void h_save_comment(void)
{
    char in_text[LONGN + 1];
    IN(unsigned, in_len);
    __CPROVER_assume(in_len <= LONGN);
    for (unsigned i = 0; i <= LONGN; i++) in_text[i] = i >= in_len ? 0 : 'x';
    /* module invariant: the last byte of the remark buffer is NUL (static initialiser, never written) */
    __CPROVER_assume(last_comment_[SCAN_COMMENT_LENGTH - 1] == 0);
    SCANsave_comment(in_text);
    __CPROVER_assert(last_comment_[SCAN_COMMENT_LENGTH - 1] == 0, "C06 remark buffer stays NUL-terminated");
    __CPROVER_assert(last_comment == last_comment_, "remark pointer");
}

void h_case_and_dup(void)
{
    IN_ARR(char, in_text, VSN + 1);
    in_text[VSN] = 0;
    char *c = SCANstrdup(in_text);
    if (c) {
        __CPROVER_assert(strcmp(c, in_text) == 0, "SCANstrdup returns an equal string");
        SCANlowerize(c);
        SCANupperize(c);
        __CPROVER_assert(strlen(c) == strlen(in_text), "case folding keeps the length");
        free(c);
    }
}

void h_identifier(void)
{
    IN_ARR(char, in_text, VSN + 1);
    IN(int, in_lineno);
    in_text[VSN] = 0;
    __CPROVER_assume(in_text[0] != 0);
    yylineno = in_lineno;
    int tok = SCANprocess_identifier_or_keyword(in_text);
    if (tok == TOK_IDENTIFIER) {
        __CPROVER_assert(yylval.symbol->line == in_lineno && yylval.symbol->filename == current_filename,
                         "C20 identifier symbols carry the current file and line");
        __CPROVER_assert(strlen(yylval.symbol->name) == strlen(in_text), "identifier text preserved in length");
    }
}

/* C06 + C20: INCLUDE: nesting depth is bounded by SCAN_NESTING_DEPTH; a failed open names the file */
void h_include_file(void)
{
    IN_ARR(char, in_name, 8);
    IN(int, in_depth);
    IN(int, in_open);
    IN(int, in_lineno);
    in_name[7] = 0;
    __CPROVER_assume(in_depth >= 0 && in_depth < SCAN_NESTING_DEPTH);
    SCAN_current_buffer = in_depth;
    g_fopen_result = in_open;
    yylineno = in_lineno;
    g_rep_calls = 0; g_rep_ptr1 = 0;
    SCANinclude_file(in_name);
    __CPROVER_assert(SCAN_current_buffer >= 0 && SCAN_current_buffer < SCAN_NESTING_DEPTH, "C06 include nesting stays inside SCAN_buffers[]");
    if (!in_open) {
        __CPROVER_assert(g_rep_calls == 1 && g_rep_errnum == INCLUDE_FILE && g_rep_line == in_lineno, "C20 a failed include is reported on the current line");
        __CPROVER_assert(g_rep_ptr1 == (const void *)in_name, "C20 the include diagnostic quotes the file name that could not be opened");
    }
}
