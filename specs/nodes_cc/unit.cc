/* Unit nodes_cc (CXX-FN): string-form writers of aggregate element nodes (StringNode, IntNode) */
#define instmgr_h
#define EXPDICT_H
#define private public
#define protected public
#include <iostream>
#include <sstream>
#include "cxx/verif_stream_model.h"
#include "clstepcore/sdai.h"
#include "repo/expdict_iface.h"
#include "clstepcore/STEPaggregate.h"
#include "clstepcore/STEPaggrString.h"
#include "clstepcore/STEPaggrInt.h"
#include "clstepcore/STEPaggrReal.h"
#include "clstepcore/STEPaggrEnum.h"
#include "clstepcore/STEPaggrBinary.h"
#include "clstepcore/read_func.h"
#include <stdio.h>
#include <stdlib.h>
#include <string.h>
/* ---- libc models (assumed ISO semantics) of "%ld": the decimal text of the value is a ghost string chosen by the harness
 *      (1..20 characters: optional '-', digits; which digits is irrelevant to the obligations and division does not go through SAT);
 *      sprintf writes all of it and a NUL, snprintf at most cap-1 characters of it and a NUL; cbmc bounds-checks every write ---- */
static char g_dec[24]; static int g_dec_len; static long g_dec_of;
static int verif_sprintf_ld(char *s, const char *fmt, long v)     /* (cbmc's C++ front end cannot parse va_arg: fixed-arity model behind a macro) */
{
    __CPROVER_assert(!strcmp(fmt, "%ld") && v == g_dec_of, "sprintf model: the one format used by IntNode, applied to the node's value");
    for (int i = 0; i < 22; i++) if (i <= g_dec_len) s[i] = g_dec[i];
    return g_dec_len;
}
static int verif_snprintf_ld(char *s, size_t cap, const char *fmt, long v)
{
    __CPROVER_assert(!strcmp(fmt, "%ld") && v == g_dec_of, "snprintf model: the one format used by IntNode, applied to the node's value");
    if (cap > 0) { size_t k = (size_t)g_dec_len < cap - 1 ? (size_t)g_dec_len : cap - 1; for (size_t i = 0; i < 22; i++) if (i < k) s[i] = g_dec[i]; s[k] = 0; }
    return g_dec_len;
}
#define sprintf(b, f, v) verif_sprintf_ld(b, f, (long)(v))
#define snprintf(b, n, f, v) verif_snprintf_ld(b, n, f, (long)(v))
#include "sdaistring_extract.inc"
#include "strnode_extract.inc"
#include "intnode_extract.inc"
static int g_wr_calls; static double g_wr_arg;
std::string WriteReal(SDAI_Real v) { g_wr_calls++; g_wr_arg = v; return std::string("1.5E0"); }   /* contract stub: the REAL token of v */
#include "realnode_extract.inc"
/* contract stubs of the enumeration value class (unit enum_cc): token with dots vs bare item name */
const char *SDAI_Enum::STEPwrite(std::string &s) const { s = ".X."; return s.c_str(); }
const char *SDAI_Enum::asStr(std::string &s) const { s = "X"; return s.c_str(); }
#include "enumnode_extract.inc"
/* contract stubs of the binary value class (unit binary_cc) and of CheckRemainingInput (unit read_func_cc): record the arguments,
 * leave a chosen severity in the caller's descriptor */
static int g_bw_calls, g_br_calls, g_cri_calls; static const SDAI_Binary *g_bw_this; static std::string *g_bw_s; static istream *g_br_in; static ErrorDescriptor *g_br_err, *g_cri_err;
static const char *g_cri_delims; static int g_br_sev, g_cri_sev;
const char *SDAI_Binary::STEPwrite(std::string &s) const { g_bw_calls++; g_bw_this = this; g_bw_s = &s; s = "\"0AF\""; return s.c_str(); }
const char *SDAI_Binary::c_str() const { return "0AF"; }
Severity SDAI_Binary::STEPread(istream &in, ErrorDescriptor *err) { g_br_calls++; g_br_in = &in; g_br_err = err; err->GreaterSeverity((Severity)g_br_sev); return err->severity(); }
Severity CheckRemainingInput(istream &, ErrorDescriptor *e, const char *, const char *d) { g_cri_calls++; g_cri_err = e; g_cri_delims = d; e->GreaterSeverity((Severity)g_cri_sev); return e->severity(); }
namespace std { istringstream::istringstream(const char *) { _m_state = 0; _m_have = 0; _m_consumed = 0; } }   /* the text is irrelevant here: the value reader is a contract stub */
#include "binnode_extract.inc"
/* contract stubs of the token readers (unit read_func_cc) */
static int g_rd_ok, g_rd_sev, g_rd_calls; static long g_rd_int; static double g_rd_real; static const char *g_rd_delims; static istream *g_rd_in;
int ReadInteger(SDAI_Integer &v, istream &in, ErrorDescriptor *err, const char *d) { g_rd_calls++; g_rd_delims = d; g_rd_in = &in; if (g_rd_ok) { v = g_rd_int; return 1; } err->GreaterSeverity((Severity)g_rd_sev); return 0; }
int ReadReal(SDAI_Real &v, istream &in, ErrorDescriptor *err, const char *d) { g_rd_calls++; g_rd_delims = d; g_rd_in = &in; if (g_rd_ok) { v = g_rd_real; return 1; } err->GreaterSeverity((Severity)g_rd_sev); return 0; }
#include "intnode_read_extract.inc"
#include "realnode_read_extract.inc"
#undef sprintf
#undef snprintf
#undef private
#undef protected
#include "src/clstepcore/sdai.cc"   /* the real null sentinels (LONG_MAX, FLT_MIN) */
#include "src/clutils/errordesc.cc"
#include "verif.h"

#define SN6 6
static void fill(std::string &s, const char *src, unsigned n) { s.clear(); for (unsigned i = 0; i < SN6; i++) if (i < n) s += src[i]; }

/* C01: the string form of a STRING element is exactly the element's own text, whatever the scratch buffer held before
 * (STEPaggregate::STEPwrite / asStr reuse one buffer for all elements of the aggregate) */
extern "C" void h_StringNode_write()
{
    IN_ARR(char, in_val, SN6); IN(unsigned, in_vlen); IN_ARR(char, in_old, SN6); IN(unsigned, in_olen);
    __CPROVER_assume(in_vlen <= SN6 && in_olen <= SN6);
    for (int i = 0; i < SN6; i++) { if ((unsigned)i < in_vlen) __CPROVER_assume(in_val[i] != 0); if ((unsigned)i < in_olen) __CPROVER_assume(in_old[i] != 0); }
    StringNode *n = (StringNode *)malloc(sizeof(StringNode));
    new (&n->value.content) std::string(); fill(n->value.content, in_val, in_vlen);
    std::string s; fill(s, in_old, in_olen);
    const char *r = n->StringNode::STEPwrite(s, 0);
    int same = strlen(r) == in_vlen; for (int i = 0; i < SN6; i++) if ((unsigned)i < in_vlen && same) same = r[i] == in_val[i];
    __CPROVER_assert(same, "C01 a STRING element is written as exactly its own text: what an earlier element left in the shared buffer is not repeated");
    __CPROVER_assert(r == s.c_str(), "the text is returned in the caller's buffer");
    std::string s2; fill(s2, in_old, in_olen);
    const char *r2 = n->StringNode::asStr(s2);
    int same2 = strlen(r2) == in_vlen; for (int i = 0; i < SN6; i++) if ((unsigned)i < in_vlen && same2) same2 = r2[i] == in_val[i];
    __CPROVER_assert(same2, "C01 asStr of a STRING element is exactly its own text");
}

/* C01: an INTEGER element is written as the full decimal text of its value (every 64-bit value), nothing for the unset sentinel */
extern "C" void h_IntNode_write()
{
    IN(long, in_v); IN_ARR(char, in_old, SN6); IN(unsigned, in_olen);
    __CPROVER_assume(in_olen <= SN6);
    for (int i = 0; i < SN6; i++) if ((unsigned)i < in_olen) __CPROVER_assume(in_old[i] != 0);
    IntNode *n = (IntNode *)malloc(sizeof(IntNode)); n->value = in_v;
    IN_ARR(char, in_dec, 20); IN(int, in_declen);
    __CPROVER_assume(in_declen >= 1 && in_declen <= 20);
    for (int i = 0; i < 20; i++) { if (i < in_declen) __CPROVER_assume((in_dec[i] >= '0' && in_dec[i] <= '9') || (i == 0 && in_dec[i] == '-')); g_dec[i] = i < in_declen ? in_dec[i] : 0; }
    g_dec[20] = 0; g_dec_len = in_declen; g_dec_of = in_v; const char *want = g_dec;
    std::string s; fill(s, in_old, in_olen);
    const char *r = n->IntNode::STEPwrite(s, 0);
    if (in_v != S_INT_NULL) __CPROVER_assert(!strcmp(r, want), "C01 an INTEGER element is written as the complete decimal text of its value (no digit dropped, for every 64-bit value)");
    else __CPROVER_assert(r[0] == 0, "the unset integer sentinel is written as nothing");
    std::string s2; fill(s2, in_old, in_olen);
    const char *r2 = n->IntNode::asStr(s2);
    if (in_v != S_INT_NULL) __CPROVER_assert(!strcmp(r2, want), "C01 asStr of an INTEGER element is the complete decimal text of its value");
}

/* C01: a REAL element is written as the REAL token of its value (WriteReal), nothing for the unset sentinel, whatever the buffer held */
extern "C" void h_RealNode_write()
{
    IN(double, in_v); IN_ARR(char, in_old, SN6); IN(unsigned, in_olen);
    __CPROVER_assume(in_olen <= SN6);
    for (int i = 0; i < SN6; i++) if ((unsigned)i < in_olen) __CPROVER_assume(in_old[i] != 0);
    RealNode *n = (RealNode *)malloc(sizeof(RealNode)); n->value = in_v;
    std::string s; fill(s, in_old, in_olen);
    g_wr_calls = 0;
    const char *r = n->RealNode::STEPwrite(s, 0);
    SDAI_Real z = S_REAL_NULL; int unset = memcmp(&in_v, &z, sizeof z) == 0;
    if (!unset) __CPROVER_assert(g_wr_calls == 1 && !strcmp(r, "1.5E0") && (g_wr_arg == in_v || in_v != in_v), "C01 a REAL element is written as exactly the REAL token of its own value (zero, negative numbers and infinities are values)");
    else __CPROVER_assert(g_wr_calls == 0 && r[0] == 0, "the unset real sentinel is written as nothing");
}

/* C01: an ENUMERATION / BOOLEAN / LOGICAL element is written as its Part 21 token - the item between dots -, its asStr is the bare name */
extern "C" void h_EnumNode_write()
{
    IN_ARR(char, in_old, SN6); IN(unsigned, in_olen);
    __CPROVER_assume(in_olen <= SN6);
    for (int i = 0; i < SN6; i++) if ((unsigned)i < in_olen) __CPROVER_assume(in_old[i] != 0);
    EnumNode *n = (EnumNode *)malloc(sizeof(EnumNode)); n->node = (SDAI_Enum *)malloc(sizeof(SDAI_Enum));
    std::string s; fill(s, in_old, in_olen);
    const char *r = n->EnumNode::STEPwrite(s, 0);
    __CPROVER_assert(!strcmp(r, ".X."), "C01 an enumeration element is written as the value's exchange-file token (.ITEM.), not as its bare name");
    std::string s2; fill(s2, in_old, in_olen);
    const char *r2 = n->EnumNode::asStr(s2);
    __CPROVER_assert(!strcmp(r2, "X"), "asStr of an enumeration element is the bare item name");
}

/* C01: a BINARY element is written by its value's own writer into the caller's buffer; its asStr is the bare text.
 * C03: what the value's reader (and, for the string form, the trailing-input check) reports reaches the caller's descriptor and
 * is the returned severity */
extern "C" void h_BinaryNode()
{
    IN_ARR(char, in_old, SN6); IN(unsigned, in_olen); IN(int, in_rsev); IN(int, in_csev);
    __CPROVER_assume(in_olen <= SN6);
    for (int i = 0; i < SN6; i++) if ((unsigned)i < in_olen) __CPROVER_assume(in_old[i] != 0);
    __CPROVER_assume(in_rsev >= SEVERITY_MAX && in_rsev <= SEVERITY_NULL && in_csev >= SEVERITY_MAX && in_csev <= SEVERITY_NULL);
    BinaryNode *n = (BinaryNode *)malloc(sizeof(BinaryNode));
    std::string s; fill(s, in_old, in_olen);
    g_bw_calls = 0;
    const char *r = n->BinaryNode::STEPwrite(s, 0);
    __CPROVER_assert(g_bw_calls == 1 && g_bw_this == &n->value && g_bw_s == &s && r == s.c_str() && !strcmp(r, "\"0AF\""), "C01 a BINARY element is written as its own value's exchange-file token, into the caller's buffer");
    std::string s2; fill(s2, in_old, in_olen);
    const char *r2 = n->BinaryNode::asStr(s2);
    __CPROVER_assert(!strcmp(r2, "0AF") && r2 == s2.c_str(), "asStr of a BINARY element is exactly its own text");
    /* readers */
    ErrorDescriptor e;
    istringstream in("x");
    g_br_calls = 0; g_br_sev = in_rsev; g_cri_calls = 0; g_cri_sev = in_csev;
    Severity sv = n->BinaryNode::STEPread(in, &e);
    __CPROVER_assert(g_br_calls == 1 && g_br_in == &in && g_br_err == &e, "the BINARY element reader reads its own value from the caller's stream with the caller's descriptor");
    __CPROVER_assert(sv == e._severity && (int)sv == in_rsev, "C03 what the value reader reported is what the element reader returns and leaves in the descriptor");
    ErrorDescriptor e2;
    g_br_calls = 0; g_cri_calls = 0;
    Severity sv2 = n->BinaryNode::STEPread("\"0AF\"", &e2);
    int worst = in_rsev < in_csev ? in_rsev : in_csev;
    __CPROVER_assert(g_br_calls == 1 && g_br_err == &e2 && g_cri_calls == 1 && g_cri_err == &e2, "the string-form reader reads the value and then checks the rest of the input, both with the caller's descriptor");
    __CPROVER_assert(sv2 == e2._severity && (int)sv2 == worst, "C03 the string-form reader returns the worse of what the value reader and the trailing-input check reported");
}

/* C09 / C03: an INTEGER or REAL element of an aggregate takes exactly the value its token converts to; a token that is no number leaves
 * the element unset, and what the token reader reported is what the element reader returns; the aggregate's delimiters are handed on */
extern "C" void h_number_node_readers()
{
    IN(int, in_which); IN(int, in_ok); IN(int, in_sev); IN(long, in_ival); IN(double, in_rval); IN(long, in_oldi); IN(double, in_oldr);
    __CPROVER_assume(in_which >= 0 && in_which < 4);
    __CPROVER_assume(in_sev == SEVERITY_WARNING || in_sev == SEVERITY_INPUT_ERROR || in_sev == SEVERITY_INCOMPLETE);
    g_rd_ok = in_ok != 0; g_rd_sev = in_sev; g_rd_int = in_ival; g_rd_real = in_rval; g_rd_calls = 0;
    istream in; in._m_state = 0; in._m_have = 0; in._m_consumed = 0; g_stream_arbitrary = 1;
    ErrorDescriptor err;
    if (in_which < 2) {
        IntNode *n = (IntNode *)malloc(sizeof(IntNode)); n->value = in_oldi; n->_null = 1;
        Severity sv = in_which == 0 ? n->IntNode::STEPread(in, &err) : n->IntNode::StrToVal(in, &err);
        if (in_ok) __CPROVER_assert(n->value == in_ival && n->_null == 0 && sv == SEVERITY_NULL, "C09 an INTEGER element takes exactly the value its token converts to");
        else __CPROVER_assert(n->value == S_INT_NULL && n->_null == 1 && sv == err.severity() && (int)sv <= in_sev, "C03 a token that is no integer leaves the element unset and the reader's report is returned");
    } else {
        RealNode *n = (RealNode *)malloc(sizeof(RealNode)); n->value = in_oldr; n->_null = 1;
        Severity sv = in_which == 2 ? n->RealNode::STEPread(in, &err) : n->RealNode::StrToVal(in, &err);
        SDAI_Real z = S_REAL_NULL;
        if (in_ok) __CPROVER_assert((n->value == in_rval || in_rval != in_rval) && n->_null == 0 && sv == SEVERITY_NULL, "C09 a REAL element takes exactly the value its token converts to");
        else __CPROVER_assert(memcmp(&n->value, &z, sizeof z) == 0 && n->_null == 1 && sv == err.severity() && (int)sv <= in_sev, "C03 a token that is no real leaves the element unset and the reader's report is returned");
    }
    __CPROVER_assert(g_rd_calls == 1 && g_rd_in == &in && g_rd_delims[0] == ',' && g_rd_delims[1] == ')' && g_rd_delims[2] == 0, "the element's token is read once from the caller's stream, up to the aggregate's delimiters");
}
