/* Unit entaggr_cc (CXX-FN): the reader of aggregates of entity references extracted from STEPaggrEntity.cc */
#define instmgr_h
#define EXPDICT_H
#define private public
#define protected public
#include <iostream>
#include <sstream>
#include "cxx/verif_stream_model.h"
#include "clstepcore/sdai.h"
#include "repo/expdict_iface.h"
#include "clstepcore/STEPaggregate.h"
#include "clstepcore/STEPaggrEntity.h"
#include "clutils/Str.h"
#include <stdio.h>
#include <stdlib.h>
/* ---- recording contract stubs ---- */
static EntityNode *g_nodes[3]; static int g_new_calls, g_empty_calls, g_add_calls, g_delete_calls; static EntityNode *g_added[3];
static int g_reads; static EntityNode *g_read_item[3]; static const TypeDescriptor *g_read_type[3]; static InstMgrBase *g_read_insts[3]; static int g_read_add[3], g_read_p21[3]; static Severity g_read_sev[3];
static EntityNode *verif_new_EntityNode() { EntityNode *n = g_new_calls < 3 ? g_nodes[g_new_calls] : 0; g_new_calls++; return n; }
static void verif_Empty(EntityAggregate *) { g_empty_calls++; }
static void verif_AddNode(EntityAggregate *, EntityNode *n) { if (g_add_calls < 3) g_added[g_add_calls] = n; g_add_calls++; }
static void verif_delete_item(EntityNode *) { g_delete_calls++; }
static Severity verif_item_read(EntityNode *item, int p21, istream &in, ErrorDescriptor *e, const TypeDescriptor *t, InstMgrBase *insts, int add)
{   /* contract of the element reader: consumes the element's token (here one character), leaves its severity */
    if (g_reads < 3) { g_read_item[g_reads] = item; g_read_type[g_reads] = t; g_read_insts[g_reads] = insts; g_read_add[g_reads] = add; g_read_p21[g_reads] = p21; e->GreaterSeverity(g_read_sev[g_reads]); }
    g_reads++; in.get(); return e->severity();
}
Severity CheckRemainingInput(istream &, ErrorDescriptor *e, const std::string, const char *) { return e->severity(); }
Severity CheckRemainingInput(istream &, ErrorDescriptor *e, const char *, const char *) { return e->severity(); }
#include "entaggr_extract.inc"
#include "src/clutils/errordesc.cc"
#undef private
#undef protected
#include "verif.h"

/* C14: every element of an aggregate of references is read with the caller's element type, instance set and id offset; C01: elements
 * are added in order, () is a set empty aggregate, $ an unset one; C03: an element's error reaches the aggregate, a missing ) is an input error */
extern "C" void h_EntityAggregate_ReadValue()
{
    IN(int, in_shape); IN(int, in_add); IN(int, in_s0); IN(int, in_s1);
    __CPROVER_assume(in_shape >= 0 && in_shape < 5 && in_add >= 0);
    __CPROVER_assume(in_s0 == SEVERITY_NULL || in_s0 == SEVERITY_WARNING || in_s0 == SEVERITY_INPUT_ERROR);
    __CPROVER_assume(in_s1 == SEVERITY_NULL || in_s1 == SEVERITY_WARNING || in_s1 == SEVERITY_INPUT_ERROR);
    const char *txt[5] = { "()", "(x)", "(x,y)", "$", "(x" };
    g_stream_arbitrary = 0; int n = 0; while (txt[in_shape][n]) { g_stream_script[n] = txt[in_shape][n]; n++; } g_stream_len = n;
    istream in; in._m_state = 0; in._m_have = 0; in._m_consumed = 0;
    EntityAggregate *a = (EntityAggregate *)malloc(sizeof(EntityAggregate)); a->_null = 1;
    for (int i = 0; i < 3; i++) g_nodes[i] = (EntityNode *)malloc(sizeof(EntityNode));
    TypeDescriptor *td = (TypeDescriptor *)malloc(sizeof(TypeDescriptor)); InstMgrBase *insts = (InstMgrBase *)malloc(8);
    g_new_calls = g_empty_calls = g_add_calls = g_delete_calls = g_reads = 0; g_read_sev[0] = (Severity)in_s0; g_read_sev[1] = (Severity)in_s1; g_read_sev[2] = SEVERITY_NULL;
    ErrorDescriptor err;
    Severity s = a->EntityAggregate::ReadValue(in, &err, td, insts, in_add, 1, 1, 0);
    int k = in_shape == 1 ? 1 : in_shape == 2 ? 2 : in_shape == 4 ? 1 : 0;
    __CPROVER_assert(g_reads == k && g_add_calls == k, "C01 every element is read once into a node of its own and added to the aggregate");
    for (int i = 0; i < 2; i++) if (i < k) {
        __CPROVER_assert(g_read_item[i] == g_nodes[i] && g_added[i] == g_nodes[i], "C01 the elements keep their order");
        __CPROVER_assert(g_read_type[i] == td && g_read_insts[i] == insts && g_read_add[i] == in_add && g_read_p21[i] == 1, "C14 every element reader gets the caller's element type, instance set and id offset, in exchange-file mode");
    }
    if (in_shape == 0) __CPROVER_assert(!a->_null && s == SEVERITY_NULL, "C01 () is a set aggregate without elements");
    if (in_shape == 3) __CPROVER_assert(a->_null && s == SEVERITY_INCOMPLETE && g_reads == 0, "C01 $ is an unset aggregate");
    if (in_shape == 4) __CPROVER_assert(s <= SEVERITY_INPUT_ERROR, "C03 an unterminated aggregate is an input error");
    if (in_shape == 1 || in_shape == 2) {
        Severity worst = (Severity)in_s0; if (in_shape == 2 && in_s1 < worst) worst = (Severity)in_s1;
        __CPROVER_assert(!a->_null && s == worst && in._m_consumed == (unsigned long)n, "C03 the aggregate's severity is the worst severity an element reported; the closing parenthesis is consumed");
    }
}
