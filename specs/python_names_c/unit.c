/* Unit python_names_c: attribute-name helpers extracted from src/exp2python/src/classes_python.c */
/* the extracted text comes first: its own feature-test macro must be what makes strdup() visible */
#include <stddef.h>
/* strncpy model (ISO C, assumed): destination must hold n bytes; zero padding not modelled (never read) */
static char *verif_strncpy(char *d, const char *s, size_t n)
{
    __CPROVER_assert(__CPROVER_w_ok(d, n), "strncpy destination holds n bytes");
    size_t i = 0;
    while (i < n && i < 16 && s[i]) { d[i] = s[i]; i++; }
    if (i < n) d[i] = 0;
    return d;
}
#define strncpy verif_strncpy
#include "pynames_extract.inc"
#undef strncpy
#include "verif.h"

static char lower_buf[16];
const char *StrToLower(const char *w) { int i = 0; while (i < 15 && w[i]) { lower_buf[i] = (char)tolower(w[i]); i++; } lower_buf[i] = 0; return lower_buf; }
int g_is_kw;
int is_python_keyword(char *w) { (void)w; return g_is_kw; }

#ifdef VERIF_TIER_THOROUGH
#define PN 8
#else
#define PN 6
#endif
/* C18 (narrow) + C06: the attribute-name helpers read only the attribute's name and produce a terminated string:
 * the name in lower case without blanks and newlines, '.' as '_' (a leading SELF\ dropped), '_' appended to a Python keyword */
void h_attribute_names(void)
{
    IN_ARR(char, in_name, PN + 1);
    IN(int, in_kw);
    static struct Variable_ v; static struct Expression_ nm; static char out[PN + 2], out2[BUFSIZ + 1];   /* frame: generate_attribute_name writes at most strlen(name) + 2 bytes of the caller's buffer; generate_dict_attr_name strncpy()s BUFSIZ bytes */
    in_name[PN] = 0;
    /* the name is given in its own exactly-sized allocation so that any read beyond its terminator is an obligation failure */
    int n = (int)strlen(in_name);
    char *name = malloc(n + 1);
    for (int i = 0; i <= PN; i++) if (i <= n) name[i] = in_name[i];
    __CPROVER_assume(!(PN >= 5 && n >= 5 && (in_name[0] == 's' || in_name[0] == 'S') && in_name[PN >= 5 ? 4 : 0] == '\\'));   /* SELF\ prefix: own case below */
    v.name = &nm; nm.symbol.name = name;
    g_is_kw = in_kw != 0;
    char *r = generate_attribute_name(&v, out);
    __CPROVER_assert(r == out, "the caller's buffer is returned");
    int k = 0, ok = 1;
    for (int i = 0; i < PN; i++) if (i < n && in_name[i] != '\n' && in_name[i] != ' ') { char want = in_name[i] == '.' ? '_' : (char)tolower(in_name[i]); if (out[k] != want) ok = 0; k++; }
    __CPROVER_assert(ok, "C18 the Python attribute name is the EXPRESS name in lower case, blanks and newlines dropped, '.' as '_'");
    if (in_kw) __CPROVER_assert(out[k] == '_' && out[k + 1] == 0, "C18 an attribute named like a Python keyword gets a trailing underscore");
    else __CPROVER_assert(out[k] == 0, "C18/C06 the generated attribute name is terminated right after the name's characters");
    char *r2 = generate_dict_attr_name(&v, out2);
    __CPROVER_assert(r2 == out2 && strlen(out2) <= (size_t)n, "C06 the dictionary attribute name is a terminated string no longer than the name");
    free(name);
}
