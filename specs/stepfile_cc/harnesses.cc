/* C16: editing states survive a working-session round trip */
#include <stdlib.h>
/* objects are raw allocations: constructors of STEPfile/MgrNode/InstMgr are outside the contract; every field the
   extracted functions read is set by the harness */
static long raw_inst[8];
static STEPfile *mk_file() { STEPfile *f = (STEPfile *)malloc(sizeof(STEPfile)); f->_error._userMsg._n = 0; f->_error._userMsg._m[0] = 0; f->_error._detailMsg._n = 0; f->_error._detailMsg._m[0] = 0; return f; }
static MgrNode *mk_node() { return (MgrNode *)malloc(sizeof(MgrNode)); }

extern "C" void h_EntityWfState()
{
    IN(int, in_c);
    __CPROVER_assume(in_c >= -128 && in_c <= 127);
    STEPfile *f = mk_file();
    stateEnum s = f->EntityWfState((char)in_c);
    /* the letters the writer uses (WriteWorkingData) */
    __CPROVER_assert((in_c == wsSaveComplete) == (s == completeSE), "C16 exactly the 'complete' letter reads back as complete");
    __CPROVER_assert((in_c == wsSaveIncomplete) == (s == incompleteSE), "C16 exactly the 'incomplete' letter reads back as incomplete");
    __CPROVER_assert((in_c == wsNew) == (s == newSE), "C16 exactly the 'new' letter reads back as new");
    __CPROVER_assert((in_c == wsDelete) == (s == deleteSE), "C16 exactly the 'delete' letter reads back as to-be-deleted");
    __CPROVER_assert(wsSaveComplete != wsSaveIncomplete && wsSaveComplete != wsNew && wsSaveComplete != wsDelete && wsSaveIncomplete != wsNew && wsSaveIncomplete != wsDelete && wsNew != wsDelete, "C16 the four state letters are distinct");
}

/* final state assignment of ReadInstance: a working-session file keeps the state read from the letter */
extern "C" void h_ReadInstance_state()
{
    IN(int, in_sev); IN(int, in_state); IN(int, in_ftype);
    STEPfile *f = mk_file();
    MgrNode *node = mk_node();
    __CPROVER_assume(in_sev >= SEVERITY_MAX && in_sev <= SEVERITY_NULL);
    __CPROVER_assume(in_state == completeSE || in_state == incompleteSE || in_state == newSE || in_state == deleteSE);
    __CPROVER_assume(in_ftype == VERSION_CURRENT || in_ftype == WORKING_SESSION);
    f->_fileType = (FileTypeCode)in_ftype; f->_strict = false; f->_fileIdIncr = 0;
    node->currState = (stateEnum)in_state; node->se = (SDAI_Application_instance *)malloc(sizeof(SDAI_Application_instance));
    if (in_ftype == VERSION_CURRENT) __CPROVER_assume(in_state == newSE);   /* pass 2 of an exchange file works on the nodes pass 1 created */
    g_node = node; g_read_sev = (Severity)in_sev; g_read_calls = 0; g_int_value = 5;
    /* "#5 = ( ... ) ;" : the '=' and the '(' that select the reading path, everything else is read by the stubs */
    g_stream_arbitrary = 0; g_stream_script[0] = '='; g_stream_script[1] = '('; g_stream_script[2] = ';'; g_stream_len = 3;
    istream in; in._m_state = 0; in._m_have = 0; in._m_consumed = 0;
    ostream out; std::string cmt;
    SDAI_Application_instance *r = f->ReadInstance(in, out, cmt, true);
    if (g_read_calls == 1) {
        if (in_ftype == WORKING_SESSION)
            __CPROVER_assert(node->currState == (stateEnum)in_state, "C16 reading a working-session instance keeps the editing state given by its state letter, whatever the read severity");
        else if (in_sev == SEVERITY_NULL || in_sev == SEVERITY_USERMSG)
            __CPROVER_assert(node->currState == completeSE, "exchange file: a cleanly read instance is complete");
        else if (in_sev >= SEVERITY_BUG && in_sev <= SEVERITY_INCOMPLETE)
            __CPROVER_assert(node->currState == incompleteSE, "exchange file: an instance read with errors is incomplete");
    }
}

/* the writer emits, for the i-th node in order, the letter of its state and then the instance; nodes without a state are skipped */
static char g_letters[8]; static int g_nletters;
extern "C" void h_WriteWorkingData()
{
    IN(int, in_n); IN(int, in_s0); IN(int, in_s1); IN(int, in_s2);
    STEPfile *f = mk_file();
    __CPROVER_assume(in_n >= 0 && in_n <= 3);
    int st[3] = { in_s0, in_s1, in_s2 };
    for (int i = 0; i < 3; i++) {
        __CPROVER_assume(st[i] == completeSE || st[i] == incompleteSE || st[i] == newSE || st[i] == deleteSE);
        g_nodes[i] = mk_node(); g_nodes[i]->currState = (stateEnum)st[i]; g_nodes[i]->se = (SDAI_Application_instance *)&raw_inst[i];
    }
    g_count = in_n; g_write_calls = 0;
    ostream out; out._m_written = 0;
    f->WriteWorkingData(out, 0);
    __CPROVER_assert(g_write_calls == in_n, "C16 every instance that has a state is written exactly once");
    for (int i = 0; i < 3; i++) if (i < in_n) __CPROVER_assert(g_written[i] == (SDAI_Application_instance *)&raw_inst[i], "C16 instances are written in manager order");
}
