/* C16: editing states survive a working-session round trip */
#include <stdlib.h>
/* objects are raw allocations: constructors of STEPfile/MgrNode/InstMgr are outside the contract; every field the
   extracted functions read is set by the harness */
static long raw_inst[8];
static STEPfile *mk_file() { STEPfile *f = (STEPfile *)malloc(sizeof(STEPfile)); f->_error._userMsg._n = 0; f->_error._userMsg._m[0] = 0; f->_error._detailMsg._n = 0; f->_error._detailMsg._m[0] = 0; return f; }
static MgrNode *mk_node() { return (MgrNode *)malloc(sizeof(MgrNode)); }

extern "C" void h_EntityWfState()
{
    IN(int, in_c);
    __CPROVER_assume(in_c >= -128 && in_c <= 127);
    STEPfile *f = mk_file();
    stateEnum s = f->EntityWfState((char)in_c);
    /* the letters the writer uses (WriteWorkingData) */
    __CPROVER_assert((in_c == wsSaveComplete) == (s == completeSE), "C16 exactly the 'complete' letter reads back as complete");
    __CPROVER_assert((in_c == wsSaveIncomplete) == (s == incompleteSE), "C16 exactly the 'incomplete' letter reads back as incomplete");
    __CPROVER_assert((in_c == wsNew) == (s == newSE), "C16 exactly the 'new' letter reads back as new");
    __CPROVER_assert((in_c == wsDelete) == (s == deleteSE), "C16 exactly the 'delete' letter reads back as to-be-deleted");
    __CPROVER_assert(wsSaveComplete != wsSaveIncomplete && wsSaveComplete != wsNew && wsSaveComplete != wsDelete && wsSaveIncomplete != wsNew && wsSaveIncomplete != wsDelete && wsNew != wsDelete, "C16 the four state letters are distinct");
}

/* final state assignment of ReadInstance: a working-session file keeps the state read from the letter */
extern "C" void h_ReadInstance_state()
{
    IN(int, in_sev); IN(int, in_state); IN(int, in_ftype); IN(int, in_incr); IN(int, in_id); IN(int, in_strict); IN(int, in_path);
    __CPROVER_assume(in_incr >= 0 && in_incr <= 1000000000 && in_id >= 0 && in_id <= 1000000000);
    STEPfile *f = mk_file();
    MgrNode *node = mk_node();
    __CPROVER_assume(in_sev >= SEVERITY_MAX && in_sev <= SEVERITY_NULL);
    __CPROVER_assume(in_state == completeSE || in_state == incompleteSE || in_state == newSE || in_state == deleteSE);
    __CPROVER_assume(in_ftype == VERSION_CURRENT || in_ftype == WORKING_SESSION);
    f->_fileType = (FileTypeCode)in_ftype; f->_strict = in_strict != 0; f->_fileIdIncr = in_incr;
    node->currState = (stateEnum)in_state; node->se = (SDAI_Application_instance *)malloc(sizeof(SDAI_Application_instance));
    if (in_ftype == VERSION_CURRENT) __CPROVER_assume(in_state == newSE);   /* pass 2 of an exchange file works on the nodes pass 1 created */
    g_node = node; g_read_sev = (Severity)in_sev; g_read_calls = 0; g_int_value = in_id;
    /* "#5 = ( ... ) ;" : the '=' and the '(' that select the reading path, everything else is read by the stubs */
    g_stream_arbitrary = 0; g_stream_script[0] = '='; g_stream_script[1] = in_path ? 'K' : '(';   /* simple instance (keyword) or complex instance */ g_stream_script[2] = ';'; g_stream_len = 3;
    istream in; in._m_state = 0; in._m_have = 0; in._m_consumed = 0;
    ostream out; std::string cmt;
    SDAI_Application_instance *r = f->ReadInstance(in, out, cmt, true);
    __CPROVER_assert(g_find_id == in_id + in_incr, "C14 an instance #n of a file read with id offset k is looked up as instance n+k");
    __CPROVER_assert(g_read_calls == 1 && r == node->se, "an instance that pass 1 created is read exactly once, on the simple and on the complex path, and returned");
    if (g_read_calls == 1) {
        __CPROVER_assert(g_read_strict == (in_strict != 0), "C15 the reader's strict / lenient setting reaches the instance reader unchanged, for simple and complex instances");
        __CPROVER_assert(g_read_id == in_id + in_incr && g_read_incr == in_incr && g_read_mgr == &f->_instances, "C14 the instance is read under its shifted id, and the same offset is handed down for the references inside it");
        if (in_ftype == WORKING_SESSION)
            __CPROVER_assert(node->currState == (stateEnum)in_state, "C16 reading a working-session instance keeps the editing state given by its state letter, whatever the read severity");
        else if (in_sev == SEVERITY_NULL || in_sev == SEVERITY_USERMSG)
            __CPROVER_assert(node->currState == completeSE, "exchange file: a cleanly read instance is complete");
        else if (in_sev >= SEVERITY_BUG && in_sev <= SEVERITY_INCOMPLETE)
            __CPROVER_assert(node->currState == incompleteSE, "exchange file: an instance read with errors is incomplete");
    }
}

/* must-fail canary (vacuity guard) for h_ReadInstance_state: under the same assumptions the reader is called once for a working-session
 * instance marked new whose read reports SEVERITY_INCOMPLETE (the case seed C16d needs), so the claim that this never happens has to be refuted */
extern "C" void h_canary_ReadInstance_state_reachable()
{
    IN(int, in_sev); IN(int, in_state); IN(int, in_ftype); IN(int, in_incr); IN(int, in_id); IN(int, in_strict); IN(int, in_path);
    __CPROVER_assume(in_incr >= 0 && in_incr <= 1000000000 && in_id >= 0 && in_id <= 1000000000);
    STEPfile *f = mk_file();
    MgrNode *node = mk_node();
    __CPROVER_assume(in_sev >= SEVERITY_MAX && in_sev <= SEVERITY_NULL);
    __CPROVER_assume(in_state == completeSE || in_state == incompleteSE || in_state == newSE || in_state == deleteSE);
    __CPROVER_assume(in_ftype == VERSION_CURRENT || in_ftype == WORKING_SESSION);
    f->_fileType = (FileTypeCode)in_ftype; f->_strict = in_strict != 0; f->_fileIdIncr = in_incr;
    node->currState = (stateEnum)in_state; node->se = (SDAI_Application_instance *)malloc(sizeof(SDAI_Application_instance));
    if (in_ftype == VERSION_CURRENT) __CPROVER_assume(in_state == newSE);   /* pass 2 of an exchange file works on the nodes pass 1 created */
    g_node = node; g_read_sev = (Severity)in_sev; g_read_calls = 0; g_int_value = in_id;
    /* "#5 = ( ... ) ;" : the '=' and the '(' that select the reading path, everything else is read by the stubs */
    g_stream_arbitrary = 0; g_stream_script[0] = '='; g_stream_script[1] = in_path ? 'K' : '(';   /* simple instance (keyword) or complex instance */ g_stream_script[2] = ';'; g_stream_len = 3;
    istream in; in._m_state = 0; in._m_have = 0; in._m_consumed = 0;
    ostream out; std::string cmt;
    SDAI_Application_instance *r = f->ReadInstance(in, out, cmt, true);
    __CPROVER_assert(!(g_read_calls == 1 && in_ftype == WORKING_SESSION && in_state == newSE && in_sev == SEVERITY_INCOMPLETE && r == node->se), "canary: a working-session instance marked new is never read with SEVERITY_INCOMPLETE (must be refuted)");
}

/* the writer emits, for the i-th node in order, the letter of its state and then the instance; nodes without a state are skipped */
extern "C" void h_WriteWorkingData()
{
    IN(int, in_n); IN(int, in_s0); IN(int, in_s1); IN(int, in_s2);
    STEPfile *f = mk_file();
    __CPROVER_assume(in_n >= 0 && in_n <= 3);
    int st[3] = { in_s0, in_s1, in_s2 };
    for (int i = 0; i < 3; i++) {
        __CPROVER_assume(st[i] == completeSE || st[i] == incompleteSE || st[i] == newSE || st[i] == deleteSE);
        g_nodes[i] = mk_node(); g_nodes[i]->currState = (stateEnum)st[i]; g_nodes[i]->se = (SDAI_Application_instance *)&raw_inst[i];
    }
    g_count = in_n; g_write_calls = 0;
    ostream out; out._m_written = 0;
    f->WriteWorkingData(out, 0);
    __CPROVER_assert(g_write_calls == in_n, "C16 every instance that has a state is written exactly once");
    for (int i = 0; i < 3; i++) if (i < in_n) __CPROVER_assert(g_written[i] == (SDAI_Application_instance *)&raw_inst[i], "C16 instances are written in manager order");
    /* transcript: "DATA;\n", then one state letter in front of every instance, then "ENDSEC;\n" */
    __CPROVER_assert(out._m_written == (unsigned long)in_n + 2 && out._m_logc[0] == 'S' && out._m_logc[in_n + 1] == 'S', "C16 the data section holds one state letter per instance between DATA; and ENDSEC;");
    for (int i = 0; i < 3; i++) if (i < in_n) {
        char want = st[i] == completeSE ? wsSaveComplete : st[i] == incompleteSE ? wsSaveIncomplete : st[i] == newSE ? wsNew : wsDelete;
        __CPROVER_assert(out._m_logc[i + 1] == want, "C16 every instance is written behind the letter of its own editing state (the letter EntityWfState maps back to that state)");
    }
}

/* C14: the offset chosen for an appended file is larger than every id already in the session (and a multiple of 1000);
 * an empty session gets offset 0 */
extern "C" void h_SetFileIdIncrement()
{
    IN(int, in_max); IN(int, in_id);
#ifdef VERIF_TIER_THOROUGH
#define MAXID_BOUND 2000000000
#else
#define MAXID_BOUND 1048575
#endif
    __CPROVER_assume(in_max >= -1 && in_max <= MAXID_BOUND && in_id >= 0 && in_id <= 100000000);
    STEPfile *f = mk_file();
    g_max_id = in_max; f->_fileIdIncr = 7;
    f->SetFileIdIncrement();
    if (in_max < 0) __CPROVER_assert(f->_fileIdIncr == 0, "an empty session reads ids unshifted");
    else {
        __CPROVER_assert(f->_fileIdIncr > in_max, "C14 the common offset of an appended file is larger than every earlier id");
        __CPROVER_assert(f->_fileIdIncr % 1000 == 0 && f->_fileIdIncr - in_max <= 2099, "the offset is the next multiple of 1000 with a gap of at least 1000 ids");
        __CPROVER_assert(f->IncrementFileId(in_id) == in_id + f->_fileIdIncr && f->IncrementFileId(in_id) > in_max, "C14 every id of the appended file is shifted by that one offset and so lies above every earlier id");
    }
}

/* C05 (termination): looking for the HEADER keyword ends for every input, whatever state the stream is in - empty file, file that
 * could not be opened (failed stream that is not at end of file), input without HEADER.  The loop bound is an unwinding assertion. */
extern "C" void h_FindHeaderSection()
{
    IN_ARR(char, in_txt, 6); IN(unsigned, in_len); IN(int, in_state);
    __CPROVER_assume(in_len <= 6);
    __CPROVER_assume(in_state == 0 || in_state == ios_base::failbit || in_state == ios_base::eofbit || in_state == (ios_base::failbit | ios_base::eofbit));
    g_stream_arbitrary = 0; for (int i = 0; i < 6; i++) g_stream_script[i] = in_txt[i]; g_stream_len = in_len;
    for (int i = 0; i < 6; i++) if ((unsigned)i < in_len) __CPROVER_assume(in_txt[i] != 0);
    istream in; in._m_state = in_state; in._m_have = 0; in._m_consumed = 0;
    STEPfile *f = mk_file(); f->_error._severity = SEVERITY_NULL;
    int r = f->FindHeaderSection(in);
    __CPROVER_assert(r == 0 || r == 1, "C05 the search for the header section terminates with an answer for every input and stream state");
    if (in_len < 6) __CPROVER_assert(r == 0 && f->_error.severity() <= SEVERITY_INPUT_ERROR, "C05/C03 input too short to hold the HEADER keyword is refused with an input error, not looped over");
}

/* C03 (pass 1): an instance whose id is already taken, whose '=' is missing, whose keyword the schema does not know, or whose entity
 * cannot be instantiated (abstract) yields no instance - and the rest of the instance is skipped, so that the next one is read;
 * C14: a created instance gets the id of the file plus the offset of this read */
extern "C" void h_CreateInstance()
{
    IN(int, in_id); IN(int, in_incr); IN(int, in_dup); IN(int, in_eq); IN(int, in_known); IN(int, in_objsev);
    __CPROVER_assume(in_id >= 0 && in_id <= 1000000000 && in_incr >= 0 && in_incr <= 1000000000);
    __CPROVER_assume(in_objsev == SEVERITY_NULL || in_objsev == SEVERITY_USERMSG || in_objsev == SEVERITY_INCOMPLETE || in_objsev == SEVERITY_WARNING || in_objsev == SEVERITY_INPUT_ERROR || in_objsev == SEVERITY_BUG);
    STEPfile *f = mk_file(); f->_fileIdIncr = in_incr;
    MgrNode *node = mk_node();
    g_node = in_dup ? node : 0; g_int_value = in_id;
    /* "#n" has been read by the caller up to the number: = KW ( ... ) ;  then the next instance's '#' */
    const char *txt = in_eq ? "=KW(x);#" : "KW(x);#";
    g_stream_arbitrary = 0; int n = 0; while (txt[n]) { g_stream_script[n] = txt[n]; n++; } g_stream_len = n;
    istream in; in._m_state = 0; in._m_have = 0; in._m_consumed = 0;
    ostream out;
    SDAI_Application_instance *obj = (SDAI_Application_instance *)malloc(sizeof(SDAI_Application_instance));
    ErrorDescriptor oe; oe.severity((Severity)in_objsev); g_obj_error = &oe;
    g_created = in_known ? obj : ENTITY_NULL; g_create_calls = g_deleted_calls = g_skip_calls = 0;
    SDAI_Application_instance *r = f->CreateInstance(in, out);
    __CPROVER_assert(g_find_id == in_id + in_incr, "C14 the id is looked up shifted by the offset of this read");
    int bad = in_dup || !in_eq || !in_known || in_objsev <= SEVERITY_WARNING;
    if (bad) __CPROVER_assert(r == ENTITY_NULL, "C03 a duplicate instance id, a missing '=', an unknown entity keyword and an entity that cannot be instantiated each yield no instance (the caller counts an error)");
    else __CPROVER_assert(r == obj && obj->STEPfile_id == in_id + in_incr, "C14 a created instance carries the file's id plus the offset");
    __CPROVER_assert(g_skip_calls == 1, "C03 whatever happened, the rest of the instance is skipped exactly once, so that the next instance is still read");
    __CPROVER_assert(in._m_consumed == (unsigned long)(n - 1), "C03 reading resumes at the '#' of the next instance");
    if (in_known && !in_dup && in_eq && in_objsev <= SEVERITY_WARNING) __CPROVER_assert(g_deleted_calls == 1, "an instance that could not be created properly is destroyed");
}

#ifdef VERIF_WITH_SUBSUPER
/* C05: a complex record #n=( A() B() C() ... ) with any number of parts is read without writing outside the part-name array (scaled to 3
 * entries here: two names and the terminator) and the array handed on is null-terminated inside its bounds */
extern "C" void h_CreateSubSuperInstance()
{
    IN(int, in_parts); IN(int, in_sev);
    __CPROVER_assume(in_parts >= 0 && in_parts <= 4);
    __CPROVER_assume(in_sev == SEVERITY_NULL || in_sev == SEVERITY_WARNING || in_sev == SEVERITY_INPUT_ERROR);
    STEPfile *f = mk_file();
    /* "( A() B() ... )" */
    g_stream_arbitrary = 0; int n = 0; g_stream_script[n++] = '(';
    for (int i = 0; i < 4; i++) if (i < in_parts) { g_stream_script[n++] = (char)('A' + i); g_stream_script[n++] = '('; g_stream_script[n++] = ')'; }
    g_stream_script[n++] = ')'; g_stream_script[n++] = ';'; g_stream_len = n;
    istream in; in._m_state = 0; in._m_have = 0; in._m_consumed = 0;
    static long objstore[64]; g_cx_obj = (SDAI_Application_instance *)objstore; ErrorDescriptor oe((Severity)in_sev); g_obj_error = &oe; g_deleted_calls = 0; g_cx_names = -1;
    ErrorDescriptor e;
    SDAI_Application_instance *r = f->CreateSubSuperInstance(in, 7, e);
    __CPROVER_assert(g_cx_names >= 0 && g_cx_names <= 2 && g_cx_names <= in_parts && g_cx_fileid == 7, "C05 the part names handed to the complex instance are a null-terminated array inside its bounds, whatever the number of parts in the record");
    if (in_sev <= SEVERITY_WARNING) __CPROVER_assert(r == ENTITY_NULL && g_deleted_calls == 1 && e.severity() == (Severity)in_sev, "C03 an illegal combination yields no instance and its severity is handed to the caller");
    else __CPROVER_assert(r == g_cx_obj, "a legal combination yields the instance");
}
#endif
