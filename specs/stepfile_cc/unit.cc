/* Unit stepfile_cc (CXX-FN): working-session state handling extracted from STEPfile.cc */
#define EXPDICT_H
#define _REGISTRY_H
#define private public
#define protected public
#include <iostream>
#include <fstream>
#include "cxx/verif_stream_model.h"
#include "clstepcore/sdai.h"
#include "repo/expdict_iface.h"
class Registry;
#include "cleditor/STEPfile.h"
#undef private
#undef protected
#include <ctype.h>
#include <stdio.h>
extern "C" { int nondet_int(); }

/* ---- contract stubs for the replaced (virtual) callees ---- */
static MgrNode *g_node; static int g_find_id; static Severity g_read_sev; static int g_read_calls;
static MgrNode *g_nodes[4]; static int g_count; static int g_write_calls; static SDAI_Application_instance *g_written[4];
static MgrNode *verif_FindFileId(InstMgr *, int id) { g_find_id = id; return g_node; }
static Severity verif_inst_STEPread(SDAI_Application_instance *, int, int, InstMgr *, istream &, const char *, bool, bool) { g_read_calls++; return g_read_sev; }
static void verif_inst_STEPwrite(SDAI_Application_instance *se, ostream &, const char *, int) { if (g_write_calls < 4) g_written[g_write_calls] = se; g_write_calls++; }
static MgrNode *verif_GetMgrNode(InstMgr *, int i) { return g_nodes[i]; }
static int verif_InstanceCount(InstMgr *) { return g_count; }
#include "stepfile_extract.inc"
#include "src/clutils/errordesc.cc"
#include "verif.h"

int MgrNode::ChangeState(stateEnum s) { currState = s; return 1; }
int STEPfile::IncrementFileId(int fileid) { return fileid; }
std::string STEPfile::schemaName() { return std::string("s"); }
static int g_int_value;
namespace std { istream &istream::operator>>(int &v) { v = g_int_value; return *this; } }
#include "harnesses.cc"
