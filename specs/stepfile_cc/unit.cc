/* Unit stepfile_cc (CXX-FN): working-session state handling extracted from STEPfile.cc */
#define EXPDICT_H
#define _REGISTRY_H
#define private public
#define protected public
#include <iostream>
#include <fstream>
#include "cxx/verif_stream_model.h"
#include "clstepcore/sdai.h"
#include "repo/expdict_iface.h"
class Registry;
#include "cleditor/STEPfile.h"
#undef private
#undef protected
#include <ctype.h>
#include <stdio.h>
extern "C" { int nondet_int(); }

/* ---- contract stubs for the replaced (virtual) callees ---- */
static MgrNode *g_node; static int g_find_id; static Severity g_read_sev; static int g_read_calls;
static MgrNode *g_nodes[4]; static int g_count; static int g_write_calls; static SDAI_Application_instance *g_written[4];
static MgrNode *verif_FindFileId(InstMgr *, int id) { g_find_id = id; return g_node; }
static int g_read_id, g_read_incr; static InstMgr *g_read_mgr; static bool g_read_strict, g_read_techcor;
static Severity verif_inst_STEPread(SDAI_Application_instance *, int id, int incr, InstMgr *im, istream &, const char *, bool techcor, bool strict) { g_read_calls++; g_read_id = id; g_read_incr = incr; g_read_mgr = im; g_read_strict = strict; g_read_techcor = techcor; return g_read_sev; }
static int g_max_id; static int verif_MaxFileId(InstMgr *) { return g_max_id; }
/* the instance writer is called non-virtually (textual qualification, cbmc cannot dispatch virtual calls) and recorded */
void SDAI_Application_instance::STEPwrite(ostream &, const char *, int) { if (g_write_calls < 4) g_written[g_write_calls] = this; g_write_calls++; }
static MgrNode *verif_GetMgrNode(InstMgr *, int i) { return g_nodes[i]; }
static int verif_InstanceCount(InstMgr *) { return g_count; }
#include <math.h>
#include <string.h>
/* models for h_CreateInstance (see unit.json) */
static int g_skip_calls; static SDAI_Application_instance *g_created; static int g_create_calls, g_deleted_calls; static ErrorDescriptor *g_obj_error;
Severity SkipInstance(istream &in, std::string &) { g_skip_calls++; for (int i = 0; i < 12; i++) { int c = in.get(); if (c < 0 || c == ';') break; } return SEVERITY_NULL; }
const char *ReadStdKeyword(istream &in, std::string &buf, int) { for (int i = 0; i < 8; i++) { int c = in.peek(); if (c < 0 || !((c >= 'A' && c <= 'Z') || c == '_')) break; buf += (char)in.get(); } return buf.c_str(); }
static SDAI_Application_instance *verif_ObjCreate(const char *, const char *) { g_create_calls++; return g_created; }
static void verif_delete_obj(SDAI_Application_instance *) { g_deleted_calls++; }
static ErrorDescriptor &verif_obj_error(SDAI_Application_instance *) { return *g_obj_error; }
/* models for h_FindHeaderSection (see unit.json) */
static char *verif_strstr(char *h, const char *n) { for (int i = 0; i < 16 && h[i]; i++) { int j = 0; while (j < 8 && n[j] && h[i + j] == n[j]) j++; if (!n[j]) return h + i; } return 0; }
#define strstr verif_strstr
namespace std { istream &istream::getline(char *s, long n, char d) {
    _m_gcount = 0;
    if (!good()) { if (n > 0) s[0] = 0; _m_state |= failbit; return *this; }
    long k = 0; bool delim = false;
    for (int i = 0; i < 10; i++) { int c = peek(); if (c < 0) { _m_state |= eofbit; break; } if (c == (unsigned char)d) { get(); delim = true; break; } if (k >= n - 1) { _m_state |= failbit; break; } s[k++] = (char)get(); }
    if (n > 0) s[k] = 0; if (k == 0 && !delim) _m_state |= failbit; _m_gcount = (unsigned long)k + (delim ? 1 : 0); return *this; } }
/* models for h_CreateSubSuperInstance */
const char *SkipSimpleRecord(istream &in, std::string &buf, ErrorDescriptor *) { for (int i = 0; i < 3; i++) { int c = in.peek(); if (c != '(' && c != ')') break; in.get(); if (c == ')') break; } return buf.c_str(); }
static int g_cx_names, g_cx_fileid; static SDAI_Application_instance *g_cx_obj;
static SDAI_Application_instance *verif_new_complex(std::string **names, int fileid)   /* (the C-style cast of the array is replaced by &entNmArr[0]: cbmc's C++ front end loses the bounds of a cast array) */
{   /* the constructor walks the name array up to its null terminator; the (scaled) array has three slots */
    int n = 0; if (names[0]) { n = 1; if (names[1]) { n = 2; if (names[2]) n = 3; } }
    g_cx_names = n; g_cx_fileid = fileid; return g_cx_obj; }
#include "stepfile_extract.inc"
#ifdef VERIF_WITH_SUBSUPER
#include "subsuper_extract.inc"
#endif
#include "stepfile_inline_extract.inc"
#undef strstr
#include "src/clutils/errordesc.cc"
#include "verif.h"

int MgrNode::ChangeState(stateEnum s) { currState = s; return 1; }
std::string STEPfile::schemaName() { return std::string("s"); }
static int g_int_value;
namespace std { istream &istream::operator>>(int &v) { v = g_int_value; return *this; } }
#include "harnesses.cc"
