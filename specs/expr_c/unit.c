/* Unit expr_c: src/express/expr.c compiled unmodified (Route C): operand resolution of operator expressions */
#include <stdio.h>
#include <stdlib.h>
#include <string.h>
#include <stdarg.h>
#include "verif.h"
#include "express/scope.h"   /* first inclusion must be the rewritten copy (union -> struct), see unit.json */
#include "src/express/expr.c"

/* ---- recording model of EXP_resolve (the macro EXPresolve calls it for operands that are not resolved yet) ---- */
#define NOPS 3
static Expression g_ops[NOPS]; static int g_defined[NOPS];          /* ghost: does operand k's name resolve? */
static int g_calls[NOPS], g_loud_failures; static Type g_last_check[NOPS];
void EXP_resolve(Expression e, Scope s, Type typecheck)
{
    (void)s;
    for (int k = 0; k < NOPS; k++) if (g_ops[k] == e) {
        g_calls[k]++; g_last_check[k] = typecheck;
        if (g_defined[k]) { e->symbol.resolved = RESOLVED; e->return_type = Type_Integer; }
        else if (typecheck == Type_Unknown) { /* contract: asked not to complain - returns silently, operand stays unresolved */ }
        else { e->symbol.resolved |= RESOLVE_FAILED; g_loud_failures++; }          /* UNDEFINED reported (an ERROR) */
    }
}
static struct Scope_ t_unknown, t_dontcare, t_int, t_logical, t_op;
static void setup(struct Expression_ *e, struct Expression_ ops[NOPS], int d0, int d1, int d2)
{
    Type_Unknown = &t_unknown; Type_Dont_Care = &t_dontcare; Type_Integer = &t_int; Type_Logical = &t_logical;
    int d[NOPS] = { d0, d1, d2 };
    for (int k = 0; k < NOPS; k++) { g_ops[k] = &ops[k]; g_defined[k] = d[k]; g_calls[k] = 0; ops[k].symbol.resolved = 0; ops[k].return_type = &t_unknown; }
    g_loud_failures = 0;
    e->e.op1 = &ops[0]; e->e.op2 = &ops[1]; e->e.op3 = &ops[2]; e->symbol.resolved = 0;
}

/* C04: every operand an operator has is resolved, so that an undefined name in any operand position - the lower index of x[lo:hi]
 * included - is reported and marks the whole expression failed */
void h_op_default(void)
{
    IN(int, in_op); IN(int, in_d0); IN(int, in_d1); IN(int, in_d2);
    static struct Expression_ e, ops[NOPS]; static struct Scope_ s;
    static const Op_Code codes[] = { OP_NEGATE, OP_NOT, OP_PLUS, OP_AND, OP_SUBCOMPONENT };
    __CPROVER_assume(in_op >= 0 && in_op < 5);
    setup(&e, ops, in_d0 != 0, in_d1 != 0, in_d2 != 0);
    e.e.op_code = codes[in_op];
    int n = in_op < 2 ? 1 : in_op < 4 ? 2 : 3;
    EXPresolve_op_default(&e, &s);
    int all_defined = 1;
    for (int k = 0; k < NOPS; k++) if (k < n) {
        __CPROVER_assert(g_calls[k] == 1 && g_last_check[k] != Type_Unknown, "C04 every operand of an operator expression is resolved once, in a mode that reports an undefined name");
        if (!g_defined[k]) all_defined = 0;
    }
    for (int k = 0; k < NOPS; k++) if (k >= n) __CPROVER_assert(g_calls[k] == 0, "operands the operator does not have are not touched");
    if (all_defined) __CPROVER_assert((e.symbol.resolved & RESOLVED) && !(e.symbol.resolved & RESOLVE_FAILED), "an operator expression whose operands all resolve is resolved");
    else __CPROVER_assert((e.symbol.resolved & RESOLVE_FAILED) && g_loud_failures >= 1, "C04 an undefined name in any operand position is reported and marks the expression failed");
}

/* C04: comparisons first try their left operand quietly; if it does not resolve, the retry must be able to complain, so that an
 * undefined name on the left of a comparison is rejected like one on the right */
void h_op_relational(void)
{
    IN(int, in_d0); IN(int, in_d1);
    static struct Expression_ e, ops[NOPS]; static struct Scope_ s;
    setup(&e, ops, in_d0 != 0, in_d1 != 0, 1);
    e.e.op_code = OP_LESS_THAN;
    Type r = EXPresolve_op_relational(&e, &s);
    __CPROVER_assert(r == &t_logical, "a comparison is of type LOGICAL");
    if (in_d0 && in_d1) __CPROVER_assert((e.symbol.resolved & RESOLVED) && !(e.symbol.resolved & RESOLVE_FAILED) && g_loud_failures == 0, "a comparison of two defined operands is resolved without a diagnostic");
    else __CPROVER_assert((e.symbol.resolved & RESOLVE_FAILED) && g_loud_failures >= 1, "C04 an undefined name on either side of a comparison is reported and marks the comparison failed");
}
