/* Unit expr_c: src/express/expr.c compiled unmodified (Route C): operand resolution of operator expressions */
#include <stdio.h>
#include <stdlib.h>
#include <string.h>
#include <stdarg.h>
#include "verif.h"
#include "express/scope.h"   /* first inclusion must be the rewritten copy (union -> struct), see unit.json */
#include "src/express/expr.c"

/* ---- recording model of EXP_resolve (the macro EXPresolve calls it for operands that are not resolved yet) ---- */
#define NOPS 3
static Expression g_ops[NOPS]; static int g_defined[NOPS];          /* ghost: does operand k's name resolve? */
static int g_calls[NOPS], g_loud_failures; static Type g_last_check[NOPS]; static Type g_ret[NOPS];   /* what a defined operand's type is (default INTEGER) */
static int g_rep_calls, g_rep_last;
void ERRORreport_with_symbol(enum ErrorCode errnum, Symbol *sym, ...) { (void)sym; g_rep_calls++; g_rep_last = errnum; }
void EXP_resolve(Expression e, Scope s, Type typecheck)
{
    (void)s;
    for (int k = 0; k < NOPS; k++) if (g_ops[k] == e) {
        g_calls[k]++; g_last_check[k] = typecheck;
        if (g_defined[k]) { e->symbol.resolved = RESOLVED; e->return_type = g_ret[k] ? g_ret[k] : Type_Integer; }
        else if (typecheck == Type_Unknown) { /* contract: asked not to complain - returns silently, operand stays unresolved */ }
        else { e->symbol.resolved |= RESOLVE_FAILED; g_loud_failures++; }          /* UNDEFINED reported (an ERROR) */
    }
}
static struct Scope_ t_unknown, t_dontcare, t_int, t_logical, t_op;
static void setup(struct Expression_ *e, struct Expression_ ops[NOPS], int d0, int d1, int d2)
{
    Type_Unknown = &t_unknown; Type_Dont_Care = &t_dontcare; Type_Integer = &t_int; Type_Logical = &t_logical;
    int d[NOPS] = { d0, d1, d2 };
    g_rep_calls = 0;
    for (int k = 0; k < NOPS; k++) { g_ret[k] = 0; g_ops[k] = &ops[k]; g_defined[k] = d[k]; g_calls[k] = 0; ops[k].symbol.resolved = 0; ops[k].return_type = &t_unknown; }
    g_loud_failures = 0;
    e->e.op1 = &ops[0]; e->e.op2 = &ops[1]; e->e.op3 = &ops[2]; e->symbol.resolved = 0;
}

/* C04: every operand an operator has is resolved, so that an undefined name in any operand position - the lower index of x[lo:hi]
 * included - is reported and marks the whole expression failed */
void h_op_default(void)
{
    IN(int, in_op); IN(int, in_d0); IN(int, in_d1); IN(int, in_d2);
    static struct Expression_ e, ops[NOPS]; static struct Scope_ s;
    static const Op_Code codes[] = { OP_NEGATE, OP_NOT, OP_PLUS, OP_AND, OP_SUBCOMPONENT };
    __CPROVER_assume(in_op >= 0 && in_op < 5);
    setup(&e, ops, in_d0 != 0, in_d1 != 0, in_d2 != 0);
    e.e.op_code = codes[in_op];
    int n = in_op < 2 ? 1 : in_op < 4 ? 2 : 3;
    EXPresolve_op_default(&e, &s);
    int all_defined = 1;
    for (int k = 0; k < NOPS; k++) if (k < n) {
        __CPROVER_assert(g_calls[k] == 1 && g_last_check[k] != Type_Unknown, "C04 every operand of an operator expression is resolved once, in a mode that reports an undefined name");
        if (!g_defined[k]) all_defined = 0;
    }
    for (int k = 0; k < NOPS; k++) if (k >= n) __CPROVER_assert(g_calls[k] == 0, "operands the operator does not have are not touched");
    if (all_defined) __CPROVER_assert((e.symbol.resolved & RESOLVED) && !(e.symbol.resolved & RESOLVE_FAILED), "an operator expression whose operands all resolve is resolved");
    else __CPROVER_assert((e.symbol.resolved & RESOLVE_FAILED) && g_loud_failures >= 1, "C04 an undefined name in any operand position is reported and marks the expression failed");
}

/* C04: comparisons first try their left operand quietly; if it does not resolve, the retry must be able to complain, so that an
 * undefined name on the left of a comparison is rejected like one on the right */
void h_op_relational(void)
{
    IN(int, in_d0); IN(int, in_d1);
    static struct Expression_ e, ops[NOPS]; static struct Scope_ s;
    setup(&e, ops, in_d0 != 0, in_d1 != 0, 1);
    e.e.op_code = OP_LESS_THAN;
    Type r = EXPresolve_op_relational(&e, &s);
    __CPROVER_assert(r == &t_logical, "a comparison is of type LOGICAL");
    if (in_d0 && in_d1) __CPROVER_assert((e.symbol.resolved & RESOLVED) && !(e.symbol.resolved & RESOLVE_FAILED) && g_loud_failures == 0, "a comparison of two defined operands is resolved without a diagnostic");
    else __CPROVER_assert((e.symbol.resolved & RESOLVE_FAILED) && g_loud_failures >= 1, "C04 an undefined name on either side of a comparison is reported and marks the comparison failed");
}

/* C06/C04: indexing x[i]: for every type x can have - aggregate, string, binary, generic, a select with any mix of aggregate and
 * other members, anything else - the resolver answers without touching invalid memory; indexing something that has no aggregate
 * in it is rejected with INDEXING_ILLEGAL */
void h_op_array_like(void)
{
    IN(int, in_kind); IN(int, in_m0); IN(int, in_m1); IN(int, in_nitems);
    static struct Expression_ e, ops[NOPS]; static struct Scope_ s;
    static struct Scope_ t_x, t_item[2], t_base, t_runtime, t_binary, t_generic; static struct TypeHead_ h_x, h_item[2]; static struct TypeBody_ b_x, b_item[2];
    static struct Linked_List_ items; static struct Link_ mk, l0, l1; static char nm[2] = "x";
    __CPROVER_assume(in_kind >= 0 && in_kind <= 6 && in_nitems >= 1 && in_nitems <= 2);
    setup(&e, ops, 1, 1, 1);
    static struct TypeHead_ h_rt; static struct TypeBody_ b_rt; t_runtime.u.type = &h_rt; h_rt.body = &b_rt; b_rt.type = runtime_; b_rt.base = 0;   /* the built-in types are complete type objects */
    Type_Runtime = &t_runtime; Type_Binary = &t_binary; Type_Generic = &t_generic;
    e.e.op_code = OP_ARRAY_ELEMENT; e.symbol.name = nm;
    t_x.u.type = &h_x; h_x.body = &b_x; t_x.symbol.name = nm; t_x.symbol.resolved = 1; b_x.base = 0; b_x.list = 0;
    /* kinds: 0 aggregate, 1 string, 2 binary, 3 generic, 4 select, 5 some other type (integer), 6 the run-time type */
    b_x.type = in_kind == 0 ? list_ : in_kind == 1 ? string_ : in_kind == 2 ? binary_ : in_kind == 3 ? generic_ : in_kind == 4 ? select_ : integer_;
    if (in_kind == 0) b_x.base = &t_base;
    int aggr[2] = { in_m0 != 0, in_m1 != 0 };
    for (int k = 0; k < 2; k++) { t_item[k].u.type = &h_item[k]; h_item[k].body = &b_item[k]; b_item[k].type = aggr[k] ? (k ? set_ : list_) : integer_; b_item[k].base = aggr[k] ? &t_base : 0; }
    items.mark = &mk; mk.next = &l0; l0.prev = &mk; l0.data = &t_item[0];
    if (in_nitems == 2) { l0.next = &l1; l1.prev = &l0; l1.data = &t_item[1]; l1.next = &mk; mk.prev = &l1; } else { l0.next = &mk; mk.prev = &l0; }
    if (in_kind == 4) b_x.list = &items;
    g_ret[0] = in_kind == 6 ? &t_runtime : &t_x;
    Type r = EXPresolve_op_array_like(&e, &s);
    int n_aggr = 0; for (int k = 0; k < 2; k++) if (k < in_nitems && aggr[k]) n_aggr++;
    int indexable = in_kind == 0 || in_kind == 1 || in_kind == 2 || in_kind == 3 || in_kind == 6 || (in_kind == 4 && n_aggr > 0);
    if (!indexable) __CPROVER_assert(r == &t_unknown && g_rep_calls >= 1 && g_rep_last == INDEXING_ILLEGAL, "C04 indexing something that has no aggregate in it (a select of non-aggregates included) is rejected with INDEXING_ILLEGAL");
    else __CPROVER_assert(r != &t_unknown && g_rep_last != INDEXING_ILLEGAL, "indexing an aggregate, a string, a binary, a generic value or a select with an aggregate member is accepted");
    if (in_kind == 0 || (in_kind == 4 && n_aggr > 0)) __CPROVER_assert(r == &t_base, "the element type is the aggregate's base type");
}
