/* Unit nodearray_cc (CXX-TU): gennodearray.cc + mgrnodearray.cc compiled unmodified as one unity TU.
 * Harness-form contracts: every operation is run from an arbitrary well-formed array state
 * (count, capacity, contents symbolic up to the stated capacity bound) and its result is compared
 * with the abstract sequence view; universal statements use a nondeterministic index. */
#define private public
#define protected public
#include <string.h>
#include <stddef.h>
#ifndef VERIF_NATIVE
/* MODEL (assumed ISO C semantics) of memmove for pointer arrays: cbmc 6.11's built-in model gives wrong
 * contents for symbolic-size overlapping copies over pointer-typed new[] arrays in C++ mode (observed:
 * {p0,p1,p2} shifted left by one became {p1,p1}); element accesses below are bounds-checked by cbmc. */
static void *verif_memmove(void *d, const void *s, size_t n)
{
    void *tmp[16];
    size_t k = n / sizeof(void *);
    __CPROVER_assert(n % sizeof(void *) == 0 && k <= 16, "memmove model: whole pointers, within the harness capacity");
    for (size_t i = 0; i < k; i++) tmp[i] = ((void *const *)s)[i];
    for (size_t i = 0; i < k; i++) ((void **)d)[i] = tmp[i];
    return d;
}
#define memmove verif_memmove
#endif
#include "src/clutils/gennodearray.cc"
#include "src/clstepcore/mgrnodearray.cc"
#undef private
#undef protected
#undef memmove
#include <stdlib.h>
#include "verif.h"

#ifndef CAP
#define CAP 4   /* capacity bound of the arrays built by the harnesses */
#endif
#ifdef VERIF_NATIVE
/* debug_level is a file-static of mgrnodearray.cc (=1, below the trace threshold) */
#else
extern "C" int nondet_int();
#endif

static char pool[2 * CAP + 4];   /* distinct addresses used as opaque node identities */

/* build an arbitrary well-formed GenNodeArray: 0 <= count <= bufsize, buf[k] != 0 for k < count, 0 beyond */
static void mk_gna(GenNodeArray &a, int bs, int cnt, GenericNode **seq)
{
    __CPROVER_assume(1 <= bs && bs <= CAP && 0 <= cnt && cnt <= bs);
    for (int k = 0; k < CAP; k++) {
        seq[k] = (GenericNode *)&pool[k];
        if (k < bs) a._buf[k] = k < cnt ? seq[k] : 0;
    }
    a._count = cnt;
}

extern "C" void h_gna_remove()
{
    IN(int, in_bs); IN(int, in_cnt); IN(int, in_idx); IN(int, in_gk);
    __CPROVER_assume(in_bs == CAP);   /* capacity concrete: symbolic-size new[]/memset exhaust the SAT back end */
    GenNodeArray &a = *new GenNodeArray(CAP);   /* never destroyed: destructors are outside the contract */
    GenericNode *seq[CAP];
    mk_gna(a, in_bs, in_cnt, seq);
    GenericNode **buf0 = a._buf;
    a.GenNodeArray::Remove(in_idx);
    __CPROVER_assert(a._bufsize == in_bs && a._buf == buf0, "C13 Remove keeps capacity and storage");
    __CPROVER_assume(0 <= in_gk && in_gk < in_bs);
    if (0 <= in_idx && in_idx < in_cnt) {
        __CPROVER_assert(a._count == in_cnt - 1, "C13 Remove(valid index) decrements the count");
        if (in_gk < in_cnt - 1)
            __CPROVER_assert(a._buf[in_gk] == (in_gk < in_idx ? seq[in_gk] : seq[in_gk + 1]), "C13 Remove keeps the survivors in insertion order");
        else
            __CPROVER_assert(a._buf[in_gk] == 0, "C13 Remove clears the vacated tail slot");
    } else {
        __CPROVER_assert(a._count == in_cnt, "C13 Remove(invalid index) changes nothing (count)");
        __CPROVER_assert(a._buf[in_gk] == (in_gk < in_cnt ? seq[in_gk] : 0), "C13 Remove(invalid index) changes nothing (contents)");
    }
}

extern "C" void h_gna_insert()
{
    IN(int, in_bs); IN(int, in_cnt); IN(int, in_idx); IN(int, in_gk);
    __CPROVER_assume(in_bs == CAP);   /* capacity concrete: symbolic-size new[]/memset exhaust the SAT back end */
    GenNodeArray &a = *new GenNodeArray(CAP);   /* never destroyed: destructors are outside the contract */
    GenericNode *seq[CAP];
    mk_gna(a, in_bs, in_cnt, seq);
    GenericNode *gn = (GenericNode *)&pool[CAP + 1];
    /* precondition taken from the call sites (Append/Insert(gn)/MgrNodeArray::Insert): index < 0 (= append) or index <= count */
    __CPROVER_assume(in_idx <= in_cnt);
    /* Insert grows the buffer with new[]: sizes must be concrete for the SAT back end, so the call is made
       once per (count, index) pair of the capacity-4 state space */
    int r = -2;
#define INS_CASE(c, i) if (in_cnt == c && in_idx == i) { a._count = c; r = a.GenNodeArray::Insert(gn, i); }
    INS_CASE(0,-1) INS_CASE(0,0) INS_CASE(1,-1) INS_CASE(1,0) INS_CASE(1,1) INS_CASE(2,-1) INS_CASE(2,0) INS_CASE(2,1) INS_CASE(2,2) INS_CASE(3,-1) INS_CASE(3,0) INS_CASE(3,1) INS_CASE(3,2) INS_CASE(3,3) INS_CASE(4,-1) INS_CASE(4,0) INS_CASE(4,1) INS_CASE(4,2) INS_CASE(4,3) INS_CASE(4,4)
#undef INS_CASE
    __CPROVER_assume(in_idx >= -1);
    int at = in_idx < 0 ? in_cnt : in_idx;
    __CPROVER_assert(r == at, "C13 Insert returns the index used");
    __CPROVER_assert(a._count == in_cnt + 1, "C13 Insert increments the count");
    __CPROVER_assert(a._bufsize >= a._count && a._bufsize >= in_bs, "C13 Insert keeps count within capacity");
    __CPROVER_assume(0 <= in_gk && in_gk <= in_cnt);
    __CPROVER_assert(a._buf[in_gk] == (in_gk < at ? seq[in_gk] : in_gk == at ? gn : seq[in_gk - 1]), "C13 Insert places the node and keeps every other node in order");
}

extern "C" void h_gna_check()
{
    IN(int, in_bs); IN(int, in_cnt); IN(int, in_idx); IN(int, in_gk);
    __CPROVER_assume(in_bs == CAP);   /* capacity concrete: symbolic-size new[]/memset exhaust the SAT back end */
    GenNodeArray &a = *new GenNodeArray(CAP);   /* never destroyed: destructors are outside the contract */
    GenericNode *seq[CAP];
    mk_gna(a, in_bs, in_cnt, seq);
    __CPROVER_assume(0 <= in_idx && in_idx <= 2 * CAP);
    /* concrete growth sizes (one call per value) */
    switch (in_idx) { case 0: a.Check(0); break; case 1: a.Check(1); break; case 2: a.Check(2); break; case 3: a.Check(3); break;
                      case 4: a.Check(4); break; case 5: a.Check(5); break; case 6: a.Check(6); break; case 7: a.Check(7); break; default: a.Check(8); break; }
    __CPROVER_assert(a._bufsize > in_idx && a._bufsize >= in_bs, "C13 Check makes room for the index");
    __CPROVER_assert(a._count == in_cnt, "C13 Check keeps the count");
    __CPROVER_assume(0 <= in_gk && in_gk < a._bufsize);
    __CPROVER_assert(a._buf[in_gk] == (in_gk < in_cnt ? seq[in_gk] : 0), "C13 Check keeps the contents and zero-fills the rest");
}

extern "C" void h_gna_index_clear()
{
    IN(int, in_bs); IN(int, in_cnt); IN(int, in_which); IN(int, in_gk);
    __CPROVER_assume(in_bs == CAP);   /* capacity concrete: symbolic-size new[]/memset exhaust the SAT back end */
    GenNodeArray &a = *new GenNodeArray(CAP);   /* never destroyed: destructors are outside the contract */
    GenericNode *seq[CAP];
    mk_gna(a, in_bs, in_cnt, seq);
    __CPROVER_assume(0 <= in_which && in_which <= CAP);
    GenericNode *q = (GenericNode *)&pool[in_which];
    int r = a.GenNodeArray::Index(q);
    __CPROVER_assert(r == (in_which < in_cnt ? in_which : -1), "C13 Index returns the position of a stored node and -1 for any other");
    a.GenNodeArray::ClearEntries();
    __CPROVER_assume(0 <= in_gk && in_gk < in_bs);
    __CPROVER_assert(a._count == 0 && a._buf[in_gk] == 0 && a._bufsize == in_bs, "C13 ClearEntries empties the array");
}

/* ---- MgrNodeArray: every stored node reports its own position ---- */
static MgrNode *nodes;
static void mk_mna(MgrNodeArray &a, int bs, int cnt)
{
    __CPROVER_assume(1 <= bs && bs <= CAP && 0 <= cnt && cnt <= bs);
    for (int k = 0; k < CAP; k++) {
        if (k < bs) a._buf[k] = k < cnt ? (GenericNode *)&nodes[k] : 0;
        nodes[k].arrayIndex = k;
    }
    a._count = cnt;
}

extern "C" void h_mna_remove()
{
    IN(int, in_bs); IN(int, in_cnt); IN(int, in_idx); IN(int, in_gk);
    __CPROVER_assume(in_bs == CAP);
    debug_level = 0;
    /* raw storage (MgrNode constructors are outside the contract); allocated before the array so that cbmc's
       new[]/delete[] bookkeeping is not disturbed by a later malloc */
    nodes = (MgrNode *)malloc((CAP + 1) * sizeof(MgrNode));
    MgrNodeArray &a = *new MgrNodeArray(CAP);
    mk_mna(a, in_bs, in_cnt);
    a.MgrNodeArray::Remove(in_idx);
    __CPROVER_assume(0 <= in_gk && in_gk < in_bs);
    if (0 <= in_idx && in_idx < in_cnt) {
        __CPROVER_assert(a._count == in_cnt - 1, "C13 MgrNodeArray::Remove decrements the count");
        if (in_gk < in_cnt - 1) {
            __CPROVER_assert(a._buf[in_gk] == (GenericNode *)&nodes[in_gk < in_idx ? in_gk : in_gk + 1], "C13 MgrNodeArray::Remove keeps the survivors in insertion order");
            __CPROVER_assert(((MgrNode *)a._buf[in_gk])->arrayIndex == in_gk, "C13 after Remove the i-th instance reports index i");
        }
    } else {
        __CPROVER_assert(a._count == in_cnt, "C13 MgrNodeArray::Remove(invalid index) changes nothing");
        if (in_gk < in_cnt) __CPROVER_assert(a._buf[in_gk] == (GenericNode *)&nodes[in_gk] && nodes[in_gk].arrayIndex == in_gk, "C13 MgrNodeArray::Remove(invalid index) keeps nodes and indices");
    }
}

extern "C" void h_mna_insert()
{
    IN(int, in_bs); IN(int, in_cnt); IN(int, in_idx); IN(int, in_gk);
    __CPROVER_assume(in_bs == CAP);
    debug_level = 0;
    /* raw storage (MgrNode constructors are outside the contract); allocated before the array so that cbmc's
       new[]/delete[] bookkeeping is not disturbed by a later malloc */
    nodes = (MgrNode *)malloc((CAP + 1) * sizeof(MgrNode));
    MgrNodeArray &a = *new MgrNodeArray(CAP);
    mk_mna(a, in_bs, in_cnt);
    __CPROVER_assume(in_idx <= in_cnt);
    MgrNode *gn = &nodes[CAP];
    int r = -2;
#define INS_CASE(c, i) if (in_cnt == c && in_idx == i) { a._count = c; r = a.MgrNodeArray::Insert(gn, i); }
    INS_CASE(0,-1) INS_CASE(0,0) INS_CASE(1,-1) INS_CASE(1,0) INS_CASE(1,1) INS_CASE(2,-1) INS_CASE(2,0) INS_CASE(2,1) INS_CASE(2,2) INS_CASE(3,-1) INS_CASE(3,0) INS_CASE(3,1) INS_CASE(3,2) INS_CASE(3,3) INS_CASE(4,-1) INS_CASE(4,0) INS_CASE(4,1) INS_CASE(4,2) INS_CASE(4,3) INS_CASE(4,4)
#undef INS_CASE
    __CPROVER_assume(in_idx >= -1);
    int at = in_idx < 0 ? in_cnt : in_idx;
    __CPROVER_assert(r == at && a._count == in_cnt + 1, "C13 MgrNodeArray::Insert returns the index used and increments the count");
    __CPROVER_assume(0 <= in_gk && in_gk <= in_cnt);
    __CPROVER_assert(a._buf[in_gk] == (GenericNode *)(in_gk < at ? &nodes[in_gk] : in_gk == at ? gn : &nodes[in_gk - 1]), "C13 MgrNodeArray::Insert keeps insertion order");
    __CPROVER_assert(((MgrNode *)a._buf[in_gk])->arrayIndex == in_gk, "C13 after Insert the i-th instance reports index i");
}

VERIF_MAIN()

/* must-fail canary (vacuity guard) for h_mna_remove: under the same preconditions a valid removal with a successor that has to be
 * renumbered is reachable, so the claim that it never happens has to be refuted */
extern "C" void h_canary_mna_remove_reachable()
{
    IN(int, in_bs); IN(int, in_cnt); IN(int, in_idx); IN(int, in_gk);
    __CPROVER_assume(in_bs == CAP);
    debug_level = 0;
    nodes = (MgrNode *)malloc((CAP + 1) * sizeof(MgrNode));
    MgrNodeArray &a = *new MgrNodeArray(CAP);
    mk_mna(a, in_bs, in_cnt);
    a.MgrNodeArray::Remove(in_idx);
    __CPROVER_assume(0 <= in_gk && in_gk < in_bs);
    __CPROVER_assert(!(0 <= in_idx && in_idx < in_cnt && in_gk >= in_idx && in_gk < in_cnt - 1 && a._count == in_cnt - 1), "canary: no removal ever has a successor to renumber (must be refuted)");
}
