/* Unit pyentity_c: the class header / constructor signature part of the Python generator (src/exp2python/src/classes_python.c),
 * function-level extraction; LISTsort / LISTswap / LISTempty of libexpress by body */
#include <stdio.h>
#include <stdlib.h>
#include <string.h>
#include <stdarg.h>
#include "verif.h"
#include "express/scope.h"   /* first inclusion must be the rewritten copy (union -> struct), see unit.json */

/* ---- fprintf: recording model. An event is appended for the formats of the class header and of the constructor signature;
 * the %s argument is recorded by its first character (the harness uses one-character names) ---- */
enum { EV_CLASS_OPEN = 1, EV_BASE, EV_BASE_DEFAULT, EV_CLASS_CLOSE, EV_INIT_OPEN, EV_INH, EV_OWN, EV_INIT_CLOSE, EV_ENUM_OPEN, EV_ENUM_ITEM, EV_ENUM_CLOSE };
#define NEV 24
static int g_ev[NEV], g_ech[NEV], g_eint[NEV], g_nev, g_kw_suffix;
static int feq(const char *a, const char *b) { int i = 0; while (i < 28 && a[i] && a[i] == b[i]) i++; return a[i] == b[i]; }
static void ev(int kind, int ch, int iv) { if (g_nev < NEV) { g_ev[g_nev] = kind; g_ech[g_nev] = ch; g_eint[g_nev] = iv; } g_nev++; }
static int verif_fprintf(FILE *f, const char *fmt, ...)
{
    (void)f;
    va_list ap; va_start(ap, fmt);
    if (feq(fmt, "class %s(")) { const char *s = va_arg(ap, const char *); ev(EV_CLASS_OPEN, s[0], 0); }
    else if (feq(fmt, "class %s_(")) { const char *s = va_arg(ap, const char *); ev(EV_CLASS_OPEN, s[0], 1); g_kw_suffix++; }
    else if (feq(fmt, "%s")) { const char *s = va_arg(ap, const char *); ev(EV_BASE, s[0], 0); }
    else if (feq(fmt, "%s_")) { const char *s = va_arg(ap, const char *); ev(EV_BASE, s[0], 1); g_kw_suffix++; }
    else if (feq(fmt, "BaseEntityClass")) ev(EV_BASE_DEFAULT, 0, 0);
    else if (feq(fmt, "):\n")) ev(EV_CLASS_CLOSE, 0, 0);
    else if (feq(fmt, "\tdef __init__( self , ")) ev(EV_INIT_OPEN, 0, 0);
    else if (feq(fmt, "inherited%i__%s , ")) { int i = va_arg(ap, int); const char *s = va_arg(ap, const char *); ev(EV_INH, s[0], i); }
    else if (feq(fmt, "%s,")) { const char *s = va_arg(ap, const char *); ev(EV_OWN, s[0], 0); }
    else if (feq(fmt, " ):\n")) ev(EV_INIT_CLOSE, 0, 0);
    else if (feq(fmt, "%s = ENUMERATION('%s','")) { const char *s = va_arg(ap, const char *); const char *t = va_arg(ap, const char *); ev(EV_ENUM_OPEN, s[0], s == t ? 0 : 2); }
    else if (feq(fmt, "%s_ = ENUMERATION('%s_','")) { const char *s = va_arg(ap, const char *); const char *t = va_arg(ap, const char *); ev(EV_ENUM_OPEN, s[0], s == t ? 1 : 2); }
    else if (feq(fmt, "%s ")) { const char *s = va_arg(ap, const char *); ev(EV_ENUM_ITEM, s[0], 0); }
    else if (feq(fmt, "%s_ ")) { const char *s = va_arg(ap, const char *); ev(EV_ENUM_ITEM, s[0], 1); }
    else if (feq(fmt, "')\n")) ev(EV_ENUM_CLOSE, 0, 0);
    va_end(ap);
    return 0;
}
#define fprintf verif_fprintf
#include "pyentity_extract.inc"
#undef fprintf
#include "linklist_extract.inc"

/* ---- callee stubs ---- */
/* contract proved in unit python_names_c (lower-cased name, terminated); one-character names here */
char *generate_attribute_name(Variable a, char *out) { out[0] = a->name->symbol.name[0]; out[1] = 0; return out; }
/* libexpress (assumed contract): the inherited-then-own attributes of e in Part 21 order; the harness prepares that list per entity */
static Entity g_all_of[2]; static Linked_List g_all_list[2];
Linked_List ENTITYget_all_attributes(Entity e) { return e == g_all_of[0] ? g_all_list[0] : e == g_all_of[1] ? g_all_list[1] : 0; }
void process_aggregate(FILE *f, Type t) { (void)f; (void)t; }
void print_aggregate_type(FILE *f, Type t) { (void)f; (void)t; }
static char g_tn[2] = "t";
char *GetAttrTypeName(Type t) { (void)t; return g_tn; }
void ATTRIBUTE_INITIALIZER__out(Expression e, int paren, int previous_op, FILE *file) { (void)e; (void)paren; (void)previous_op; (void)file; }
void WHEREPrint(Linked_List wheres, int level, FILE *file) { (void)wheres; (void)level; (void)file; }

/* libexpress dictionary iteration (assumed contract): after HASHlistinit_by_type, DICTdo yields every entry of the requested kind once, then 0;
 * the harness prepares the entries */
static void *g_items[3]; static int g_item_n, g_item_pos; static Dictionary g_iter_dict;
void HASHlistinit_by_type(Hash_Table table, HashEntry *he, char type) { (void)he; g_iter_dict = table; g_item_pos = 0; __CPROVER_assert(type == OBJ_ENUM, "the items are looked up as enumeration items"); }
void *DICTdo(DictionaryEntry *de) { (void)de; if (g_item_pos < g_item_n) return g_items[g_item_pos++]; return 0; }

/* ---- specification table: the reserved words of Python 3 that can be spelled as a (lower-case) EXPRESS identifier, and the
 * decorator name the generated classes use ---- */
static const char *const py_reserved[] = { "and", "as", "assert", "async", "await", "break", "class", "continue", "def", "del", "elif", "else",
    "except", "finally", "for", "from", "global", "if", "import", "in", "is", "lambda", "nonlocal", "not", "or", "pass", "raise", "return",
    "try", "while", "with", "yield", "property" };
#define NRES ((int)(sizeof py_reserved / sizeof py_reserved[0]))

/* C18: "including identifiers that are Python keywords": every reserved word of Python is recognised (and then gets a trailing
 * underscore, units python_names_c and h_class_header_and_ctor), an ordinary identifier is not */
void h_python_keywords(void)
{
    IN(int, in_k); IN(int, in_other);
    __CPROVER_assume(in_k >= 0 && in_k < NRES);
    char w[12]; int i = 0;
    for (; i < 11 && py_reserved[in_k][i]; i++) w[i] = py_reserved[in_k][i];
    w[i] = 0;
    __CPROVER_assert(is_python_keyword(w), "C18 every reserved word of Python is recognised by is_python_keyword");
    static char o0[] = "x", o1[] = "clas", o2[] = "classes", o3[] = "entity", o4[] = "passing", o5[] = "i";
    char *others[] = { o0, o1, o2, o3, o4, o5 };
    __CPROVER_assume(in_other >= 0 && in_other < 6);
    __CPROVER_assert(!is_python_keyword(others[in_other]), "C18 an ordinary identifier (also a prefix or an extension of a reserved word) is not taken for a keyword");
}

/* C18: class header and constructor signature of an entity with two direct supertypes of different depth.
 *   a(x)  <-  b(y);   s(z);   c SUBTYPE OF (first, second), own attribute w;  {first, second} = {s, b} in symbolic order
 * base classes = the supertypes in declaration order; constructor = inherited (per supertype in that order, each with ITS inherited
 * attributes first) then own, DERIVED attributes left out, numbered 0.. */
static struct Scope_ ea, eb, es, ec; static struct Entity_ xa, xb, xs, xc;
static struct Variable_ vx, vy, vz, vw; static struct Expression_ nx, ny, nz, nw, init_z; static struct Scope_ ty; static struct TypeHead_ tyh; static struct TypeBody_ tyb;
static struct Linked_List_ l_sup_b, l_sup_c, l_sup_none, l_at_a, l_at_b, l_at_s, l_at_c, l_all_b, l_all_s;
static struct Link_ m_sup_b, m_sup_c, m_sup_none, m_at_a, m_at_b, m_at_s, m_at_c, m_all_b, m_all_s, k[12];
static int g_k;
static void lst_init(Linked_List l, Link mark) { l->mark = mark; mark->next = mark->prev = mark; mark->data = 0; }
static void lst_add(Linked_List l, void *item) { Link n = &k[g_k++]; n->data = item; n->next = l->mark; n->prev = l->mark->prev; l->mark->prev->next = n; l->mark->prev = n; }
static void var_init(Variable v, Expression nm, char *name) { v->name = nm; nm->symbol.name = name; v->type = &ty; v->initializer = 0; v->inverse_attribute = 0; v->flags.optional = 0; }
static void ent_init(Entity e, struct Entity_ *x, char *name, Linked_List sup, Linked_List attrs) { e->symbol.name = name; e->u.entity = x; x->supertypes = sup; x->attributes = attrs; e->where = 0; }

/* the declaration order is a constant of each entry point (a symbolic order makes the recursion of count_supertypes and the
 * list walks symbolic: the symbolic execution did not finish in 900 s) */
static void class_header_and_ctor(const int in_order)
{
    IN(int, in_z_derived);
    static char n_a[] = "a", n_b[] = "b", n_s[] = "s", n_c[] = "c", n_x[] = "x", n_y[] = "y", n_z[] = "z", n_w[] = "w", n_t[] = "t";
    __CPROVER_assume(in_order == 0 || in_order == 1);
    ty.symbol.name = n_t; ty.u.type = &tyh; tyh.body = &tyb; tyb.base = 0;
    var_init(&vx, &nx, n_x); var_init(&vy, &ny, n_y); var_init(&vz, &nz, n_z); var_init(&vw, &nw, n_w);
    if (in_z_derived) vz.initializer = &init_z;
    g_k = 0;
    lst_init(&l_sup_none, &m_sup_none); lst_init(&l_sup_b, &m_sup_b); lst_init(&l_sup_c, &m_sup_c);
    lst_init(&l_at_a, &m_at_a); lst_init(&l_at_b, &m_at_b); lst_init(&l_at_s, &m_at_s); lst_init(&l_at_c, &m_at_c); lst_init(&l_all_b, &m_all_b); lst_init(&l_all_s, &m_all_s);
    lst_add(&l_at_a, &vx); lst_add(&l_at_b, &vy); lst_add(&l_at_s, &vz); lst_add(&l_at_c, &vw);
    lst_add(&l_all_b, &vx); lst_add(&l_all_b, &vy); lst_add(&l_all_s, &vz);
    ent_init(&ea, &xa, n_a, &l_sup_none, &l_at_a); ent_init(&es, &xs, n_s, &l_sup_none, &l_at_s);
    ent_init(&eb, &xb, n_b, &l_sup_b, &l_at_b); lst_add(&l_sup_b, &ea);
    ent_init(&ec, &xc, n_c, &l_sup_c, &l_at_c);
    Entity first = in_order ? &eb : &es, second = in_order ? &es : &eb;
    lst_add(&l_sup_c, first); lst_add(&l_sup_c, second);
    g_all_of[0] = &eb; g_all_list[0] = &l_all_b; g_all_of[1] = &es; g_all_list[1] = &l_all_s;
    g_nev = 0; g_kw_suffix = 0;
    static FILE fobj;
    LIBdescribe_entity(&ec, &fobj);

    /* expected transcript */
    int want_ev[NEV], want_ch[NEV], want_i[NEV], n = 0, idx = 0;
#define W(e, c, i) do { want_ev[n] = (e); want_ch[n] = (c); want_i[n] = (i); n++; } while (0)
    W(EV_CLASS_OPEN, 'c', 0); W(EV_BASE, first->symbol.name[0], 0); W(EV_BASE, second->symbol.name[0], 0); W(EV_CLASS_CLOSE, 0, 0);
    int hdr = n;
    W(EV_INIT_OPEN, 0, 0);
    for (int p = 0; p < 2; p++) {
        Entity e = p == 0 ? first : second;
        if (e == &eb) { W(EV_INH, 'x', idx); idx++; W(EV_INH, 'y', idx); idx++; }
        else if (!in_z_derived) { W(EV_INH, 'z', idx); idx++; }
    }
    W(EV_OWN, 'w', 0); W(EV_INIT_CLOSE, 0, 0);
#undef W
    int hdr_ok = 1, ctor_ok = g_nev >= n;
    for (int i = 0; i < NEV; i++) if (i < n && i < g_nev) {
        int same = g_ev[i] == want_ev[i] && g_ech[i] == want_ch[i] && g_eint[i] == want_i[i];
        if (i < hdr) { if (!same) hdr_ok = 0; } else if (!same) ctor_ok = 0;
    }
    __CPROVER_assert(g_nev >= hdr, "the class header is printed");
    __CPROVER_assert(g_kw_suffix == 0, "C18 no underscore is appended to a name that is not a Python keyword");
    if (in_order == 1) {
        __CPROVER_assert(hdr_ok, "C18 (deeper supertype declared first) the base classes are the supertypes in declaration order");
        __CPROVER_assert(ctor_ok, "C18 (deeper supertype declared first) the constructor takes the inherited attributes, supertype by supertype in declaration order and each with its own inherited attributes first, then the entity's own explicit attributes; derived ones left out");
    } else {
        __CPROVER_assert(hdr_ok, "C18 (shallower supertype declared first) the base classes are the supertypes in declaration order");
        __CPROVER_assert(ctor_ok, "C18 (shallower supertype declared first) the constructor takes the inherited attributes in Part 21 order, then the entity's own");
    }
    /* whatever the order of the bases: the signature names every explicit attribute once, the supertypes' before the entity's own,
     * and an attribute a supertype inherited (x through b) is among them */
    int seen_x = 0, seen_y = 0, seen_z = 0, seen_w = 0, own_before_inh = 0, closed = 0;   /* the signature ends at " ):"; the calls of the bases' constructors that follow use the same format */
    for (int i = 0; i < NEV; i++) if (i < g_nev && !closed) {
        if (g_ev[i] == EV_INIT_CLOSE) closed = 1;
        if (g_ev[i] == EV_INH) { if (g_ech[i] == 'x') seen_x++; if (g_ech[i] == 'y') seen_y++; if (g_ech[i] == 'z') seen_z++; if (seen_w) own_before_inh = 1; }
        if (g_ev[i] == EV_OWN && g_ech[i] == 'w') seen_w++;
    }
    __CPROVER_assert(seen_x == 1 && seen_y == 1 && seen_w == 1 && seen_z == (in_z_derived ? 0 : 1) && !own_before_inh,
                     "C18 the constructor names every inherited explicit attribute once (also those a supertype inherited itself), then the own ones; DERIVED attributes are not parameters");
}
void h_class_header_and_ctor_deep_first(void) { class_header_and_ctor(1); }
void h_class_header_and_ctor_shallow_first(void) { class_header_and_ctor(0); }
/* must-fail canary (vacuity guard): with the same preconditions the generator is reached and prints the header and the signature, so the
 * claim "nothing was recorded" has to be refuted; a contradictory assumption or an empty transcript model would let it verify */
void h_canary_transcript_nonempty(void) { class_header_and_ctor(1); __CPROVER_assert(g_nev == 0, "canary: no print call was recorded (must be refuted)"); }
void h_canary_keyword(void) { static char w[] = "x"; __CPROVER_assert(is_python_keyword(w), "canary: an ordinary identifier is a keyword (must be refuted)"); }

/* C18: "one definition per defined type with ... enumeration items": the definition of an enumeration type names the type (twice, the
 * same way), then every item the dictionary yields exactly once and in that order, a Python keyword with a trailing underscore, and is closed */
void h_enum_definition(void)
{
    IN(int, in_n); IN(int, in_kw0); IN(int, in_kw1); IN(int, in_tkw);
    static char t_plain[] = "t", t_kw[] = "global", i_x[] = "x", i_y[] = "y", i_def[] = "def", i_pass[] = "pass";
    static struct Scope_ et; static struct Expression_ e0, e1; static struct Hash_Table_ tab; static FILE fobj;
    __CPROVER_assume(in_n >= 0 && in_n <= 2);
    et.symbol.name = in_tkw ? t_kw : t_plain; et.symbol_table = &tab;
    e0.symbol.name = in_kw0 ? i_def : i_x; e1.symbol.name = in_kw1 ? i_pass : i_y;
    g_items[0] = &e0; g_items[1] = &e1; g_item_n = in_n;
    g_nev = 0; g_iter_dict = 0;
    TYPEenum_lib_print(&et, &fobj);
    __CPROVER_assert(g_iter_dict == &tab, "the items come from the type's own symbol table");
    __CPROVER_assert(g_nev == in_n + 2, "C18 an enumeration definition is the opening, one entry per item, the closing");
    __CPROVER_assert(g_ev[0] == EV_ENUM_OPEN && g_ech[0] == (in_tkw ? 'g' : 't') && g_eint[0] == (in_tkw ? 1 : 0), "C18 the enumeration is defined under the type's name, given the same way as variable and as ENUMERATION name, a Python keyword with a trailing underscore");
    if (in_n >= 1) __CPROVER_assert(g_ev[1] == EV_ENUM_ITEM && g_ech[1] == (in_kw0 ? 'd' : 'x') && g_eint[1] == (in_kw0 ? 1 : 0), "C18 the first enumeration item is listed, a Python keyword with a trailing underscore");
    if (in_n >= 2) __CPROVER_assert(g_ev[2] == EV_ENUM_ITEM && g_ech[2] == (in_kw1 ? 'p' : 'y') && g_eint[2] == (in_kw1 ? 1 : 0), "C18 the second enumeration item is listed after the first");
    __CPROVER_assert(g_ev[in_n + 1] == EV_ENUM_CLOSE, "C18 the enumeration definition is closed after the last item");
}
