/* Unit selects_c: src/exp2cxx/selects.c compiled unmodified (Route C) */
#include <stdio.h>
#include <stdlib.h>
#include <string.h>
#include <stdarg.h>
#include "verif.h"
#include "express/scope.h"   /* first inclusion must be the rewritten copy (union -> struct), see unit.json */
static int verif_fprintf(FILE *f, const char *fmt, ...) { (void)f; (void)fmt; return 0; }
#define fprintf verif_fprintf
/* strncpy model (ISO C, assumed): destination must hold n bytes; the source string (or its first n bytes) is copied; zero padding not modelled */
static char *verif_strncpy(char *d, const char *s, size_t n)
{
    __CPROVER_assert(__CPROVER_w_ok(d, n), "strncpy destination holds n bytes");
    size_t i = 0;
    while (i < n && i < 3 && s[i]) { d[i] = s[i]; i++; }
    if (i < n) d[i] = 0;
    return d;
}
#define strncpy verif_strncpy
#include "src/exp2cxx/selects.c"
#undef fprintf
#undef strncpy
#include "../c17_spec.h"

int g_typeprint_calls; Type g_typeprint_arg; Type g_ancestor;
void TYPEPrint(const Type t, FILES *files, Schema schema) { (void)files; (void)schema; g_typeprint_calls++; g_typeprint_arg = t; }
Type TYPEget_ancestor(Type t) { (void)t; return g_ancestor; }
static char g_nm[2] = "s";
const char *SelectName(const char *n) { (void)n; return g_nm; }
const char *TypeDescriptorName(Type t) { (void)t; return g_nm; }
int isAggregateType(const Type t) { (void)t; return 0; }
const char *StrToUpper(const char *w) { return w; }   /* name helper (classes_misc.c) */

/* C17 (generator side, selects): a select gets its own files exactly once iff it is not a rename;
 * C06/C12: the mark left on a processed select stays valid memory, so that a later call for the same type
 * (selects that are items of other selects are visited again) never reads freed storage */
void h_TYPEselect_print(void)
{
    IN(int, in_renamed); IN(int, in_items);
    static struct Scope_ ts, headt, schema, item; static struct TypeHead_ tt, ith, hth; static struct TypeBody_ tb, itb, htb; static FILES files; static FILE fobj;
    static struct Linked_List_ lst; static struct Link_ mark, l1; static char nm[2] = "s";
    __CPROVER_assume(in_items == 0 || in_items == 1);
    ts.u.type = &tt; tt.body = &tb; tb.type = select_; tt.head = in_renamed ? &headt : 0; ts.symbol.name = nm; ts.clientData = 0;
    headt.u.type = &hth; hth.body = &htb; htb.type = select_; headt.symbol.name = nm; headt.clientData = (ClientData)&mark;   /* the renamed select's original has been processed */
    g_ancestor = in_renamed ? &headt : 0;
    /* item list: empty, or one simple (non-select) item */
    item.u.type = &ith; ith.body = &itb; itb.type = integer_; item.symbol.name = nm;
    lst.mark = &mark; mark.next = in_items ? &l1 : &mark; mark.prev = in_items ? &l1 : &mark; l1.next = &mark; l1.prev = &mark; l1.data = &item;
    tb.list = &lst;
    files.inc = files.lib = files.init = &fobj;
    g_typeprint_calls = 0;
    TYPEselect_print(&ts, &files, &schema);
    __CPROVER_assert(g_typeprint_calls == (c17_has_own_files(select_, in_renamed != 0) ? 1 : 0), "C17 the generator creates the files of a select exactly once iff the select is not a rename");
    __CPROVER_assert(ts.clientData != 0, "the processed select is marked");
    /* visited again (as an item of another select): nothing more is generated and the mark is read from live memory */
    TYPEselect_print(&ts, &files, &schema);
    __CPROVER_assert(g_typeprint_calls == (c17_has_own_files(select_, in_renamed != 0) ? 1 : 0), "C17 a select visited again is not generated twice");
}
