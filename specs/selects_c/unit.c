/* Unit selects_c: src/exp2cxx/selects.c compiled unmodified (Route C) */
#include <stdio.h>
#include <stdlib.h>
#include <string.h>
#include <stdarg.h>
#include "verif.h"
#include "express/scope.h"   /* first inclusion must be the rewritten copy (union -> struct), see unit.json */
/* fprintf: the text is discarded; the value-writing statements of the generated select writers are counted by their format */
static int g_f_writereal, g_f_plain, g_f_ref, g_f_embedded, g_f_sel;
/* the statement kinds are told apart by a few characters at fixed positions of the format (every index is read only after the ones before
 * it were seen to be non-NUL); all of them start with eight blanks */
#define F(i, c) (fmt[i] == (c))
static int verif_fprintf(FILE *f, const char *fmt, ...)
{
    (void)f;
    if (!(F(0,' ') && F(1,' ') && F(2,' ') && F(3,' ') && F(4,' ') && F(5,' ') && F(6,' ') && F(7,' '))) return 0;
    if (F(8,'W') && F(9,'r') && F(10,'i') && F(11,'t') && F(12,'e') && F(13,'R')) { g_f_writereal++; return 0; }          /* "        WriteReal(_%s,out);" */
    if (F(8,'o') && F(9,'u') && F(10,'t') && F(11,' ') && F(12,'<') && F(13,'<') && F(14,' ')) {
        if (F(15,' ') && F(16,'_')) { g_f_plain++; return 0; }                                                                   /* "        out <<  _%s;" */
        if (F(15,'t') && F(16,'m') && F(17,'p') && F(18,' ') && F(19,'<') && F(20,'<') && F(21,' ') && F(22,'"') && F(23,'(') && F(24,'"') && F(25,' ') && F(26,'<') && F(27,'<') && F(28,' ') && F(29,'_')) { g_f_plain++; return 0; }   /* out << tmp << "(" << _%s << ")"; */
        return 0;
    }
    if (F(8,'_') && F(9,'%') && F(10,'s')) {
        if (F(11,' ') && F(12,'-') && F(13,'>') && F(14,' ') && F(15,'S') && F(16,'T') && F(17,'E') && F(18,'P') && F(19,'w') && F(20,'r') && F(21,'i') && F(22,'t') && F(23,'e') && F(24,'_') && F(25,'r')) { g_f_ref++; return 0; }
        if (F(11,'.') && F(12,'S') && F(13,'T') && F(14,'E') && F(15,'P') && F(16,'w') && F(17,'r') && F(18,'i') && F(19,'t') && F(20,'e')) {
            if (F(21,'_') && F(22,'v')) { g_f_sel++; return 0; }                                                                 /* _%s.STEPwrite_verbose (out, currSch); */
            if (F(21,' ') && F(22,'(') && F(23,'o') && F(24,'u') && F(25,'t')) { if (F(26,')')) g_f_embedded++; else if (F(26,',')) g_f_sel++; return 0; }
        }
    }
    return 0;
}
#undef F
#define fprintf verif_fprintf
/* strncpy model (ISO C, assumed): destination must hold n bytes; the source string (or its first n bytes) is copied; zero padding not modelled */
static char *verif_strncpy(char *d, const char *s, size_t n)
{
    __CPROVER_assert(__CPROVER_w_ok(d, n), "strncpy destination holds n bytes");
    size_t i = 0;
    while (i < n && i < 3 && s[i]) { d[i] = s[i]; i++; }
    if (i < n) d[i] = 0;
    return d;
}
#define strncpy verif_strncpy
#include "src/exp2cxx/selects.c"
#undef fprintf
#undef strncpy
#include "../c17_spec.h"

int g_typeprint_calls; Type g_typeprint_arg; Type g_ancestor;
void TYPEPrint(const Type t, FILES *files, Schema schema) { (void)files; (void)schema; g_typeprint_calls++; g_typeprint_arg = t; }
Type TYPEget_ancestor(Type t) { (void)t; return g_ancestor; }
static char g_nm[2] = "s";
const char *SelectName(const char *n) { (void)n; return g_nm; }
const char *TypeDescriptorName(Type t) { (void)t; return g_nm; }
int isAggregateType(const Type t) { (void)t; return 0; }
const char *StrToUpper(const char *w) { return w; }   /* name helper (classes_misc.c) */
const char *StrToLower(const char *w) { return w; }
const char *FundamentalType(const Type t, int r) { (void)t; (void)r; return g_nm; }
const char *TYPEget_ctype(const Type t) { (void)t; return g_nm; }
/* list primitives of libexpress (models): a fresh empty list; appending links the item behind the last one (two items at most here) */
static struct Linked_List_ g_l[4]; static struct Link_ g_lm[4], g_ll[8]; static int g_nl, g_nk;
Linked_List LISTcreate(void) { Linked_List l = &g_l[g_nl & 3]; l->mark = &g_lm[g_nl & 3]; l->mark->next = l->mark->prev = l->mark; g_nl++; return l; }
void *LISTadd_last(Linked_List l, void *item) { Link k = &g_ll[g_nk & 7]; g_nk++; k->data = item; k->next = l->mark; k->prev = l->mark->prev; l->mark->prev->next = k; l->mark->prev = k; return item; }
void LISTfree(Linked_List l) { (void)l; }

/* C17 (generator side, selects): a select gets its own files exactly once iff it is not a rename;
 * C06/C12: the mark left on a processed select stays valid memory, so that a later call for the same type
 * (selects that are items of other selects are visited again) never reads freed storage */
void h_TYPEselect_print(void)
{
    IN(int, in_renamed); IN(int, in_items);
    static struct Scope_ ts, headt, schema, item; static struct TypeHead_ tt, ith, hth; static struct TypeBody_ tb, itb, htb; static FILES files; static FILE fobj;
    static struct Linked_List_ lst; static struct Link_ mark, l1; static char nm[2] = "s";
    __CPROVER_assume(in_items == 0 || in_items == 1);
    ts.u.type = &tt; tt.body = &tb; tb.type = select_; tt.head = in_renamed ? &headt : 0; ts.symbol.name = nm; ts.clientData = 0;
    headt.u.type = &hth; hth.body = &htb; htb.type = select_; headt.symbol.name = nm; headt.clientData = (ClientData)&mark;   /* the renamed select's original has been processed */
    g_ancestor = in_renamed ? &headt : 0;
    /* item list: empty, or one simple (non-select) item */
    item.u.type = &ith; ith.body = &itb; itb.type = integer_; item.symbol.name = nm;
    lst.mark = &mark; mark.next = in_items ? &l1 : &mark; mark.prev = in_items ? &l1 : &mark; l1.next = &mark; l1.prev = &mark; l1.data = &item;
    tb.list = &lst;
    files.inc = files.lib = files.init = &fobj;
    g_typeprint_calls = 0;
    TYPEselect_print(&ts, &files, &schema);
    __CPROVER_assert(g_typeprint_calls == (c17_has_own_files(select_, in_renamed != 0) ? 1 : 0), "C17 the generator creates the files of a select exactly once iff the select is not a rename");
    __CPROVER_assert(ts.clientData != 0, "the processed select is marked");
    /* visited again (as an item of another select): nothing more is generated and the mark is read from live memory */
    TYPEselect_print(&ts, &files, &schema);
    __CPROVER_assert(g_typeprint_calls == (c17_has_own_files(select_, in_renamed != 0) ? 1 : 0), "C17 a select visited again is not generated twice");
}

/* C09 / C01 (generated code): the two writers that exp2cxx prints for every select (STEPwrite_content and STEPwrite_verbose) render a
 * REAL or NUMBER member through WriteReal - the Part 21 real form, decimal point and upper-case E -, an INTEGER member as a plain
 * integer, an entity member as a reference, and embedded values (STRING, BINARY, enumerations, LOGICAL, BOOLEAN) through their own writer */
void h_select_part21(void)
{
    IN(int, in_kind);
    static const int kinds[] = { integer_, real_, number_, string_, binary_, boolean_, logical_, enumeration_, entity_, select_ };
    __CPROVER_assume(in_kind >= 0 && in_kind < 10);
    static struct Scope_ ts, item; static struct TypeHead_ tt, ith; static struct TypeBody_ tb, itb; static FILE fobj;
    static struct Linked_List_ lst; static struct Link_ mark, l1; static char nm[2] = "s";
    ts.u.type = &tt; tt.body = &tb; tb.type = select_; tt.head = 0; ts.symbol.name = nm;
    item.u.type = &ith; ith.body = &itb; itb.type = (enum type_enum)kinds[in_kind]; item.symbol.name = nm; ith.head = 0;
    lst.mark = &mark; mark.next = &l1; mark.prev = &l1; l1.next = &mark; l1.prev = &mark; l1.data = &item; tb.list = &lst;
    g_f_writereal = g_f_plain = g_f_ref = g_f_embedded = g_f_sel = 0;
    TYPEselect_lib_part21(&ts, &fobj);
    int k = kinds[in_kind];
    if (k == real_ || k == number_) __CPROVER_assert(g_f_writereal == 2 && g_f_plain == 0, "C09 a REAL or NUMBER member of a select is written through WriteReal by both generated writers (never by the stream's default number format)");
    else if (k == integer_) __CPROVER_assert(g_f_plain == 2 && g_f_writereal == 0, "C09 an INTEGER member of a select is written as a plain integer by both generated writers");
    else if (k == entity_) __CPROVER_assert(g_f_ref == 2 && g_f_writereal == 0 && g_f_plain == 0, "C01 an entity member of a select is written as a reference");
    else if (k == select_) __CPROVER_assert(g_f_sel == 2 && g_f_writereal == 0 && g_f_plain == 0, "C01 a select member of a select is written by its own writers, with the schema");
    else __CPROVER_assert(g_f_embedded == 2 && g_f_writereal == 0 && g_f_plain == 0, "C01 an embedded member (STRING, BINARY, BOOLEAN, LOGICAL, enumeration) is written by its own writer");
}
