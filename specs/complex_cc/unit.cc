/* Unit complex_cc (CXX-FN): reader of externally mapped (complex) instances extracted from STEPcomplex.cc */
#define instmgr_h
#define EXPDICT_H
#define _REGISTRY_H
#define private public
#define protected public
#include <iostream>
#include <sstream>
#include <list>
#include "cxx/verif_stream_model.h"
#include "clstepcore/sdai.h"
#include "repo/expdict_iface.h"
class Registry;
#include "clstepcore/STEPaggregate.h"
#include "clstepcore/STEPcomplex.h"
#include "clstepcore/read_func.h"
#undef private
#undef protected
#include <stdio.h>
#include <stdlib.h>
/* ---- recording contract stubs of the replaced callees ---- */
static STEPcomplex *g_parts[2]; static int g_part_lookups, g_part_missing_at;
static int g_reads; static STEPcomplex *g_read_part[2]; static int g_read_id[2], g_read_add[2]; static InstMgrBase *g_read_set[2];
static int g_err_calls, g_clear_calls; static Severity g_part_sev;
static STEPcomplex *verif_EntityPart(STEPcomplex *, const char *, const char *) { int k = g_part_lookups++; return (k < 2 && k != g_part_missing_at) ? g_parts[k] : 0; }
static bool g_read_strict[2], g_read_techcor[2];
static Severity verif_part_STEPread(STEPcomplex *p, int id, int add, InstMgrBase *set, istream &in, const char *, bool techcor = true, bool strict = true)
{   /* a part reader consumes the parenthesised value list of its part */
    if (g_reads < 2) { g_read_part[g_reads] = p; g_read_id[g_reads] = id; g_read_add[g_reads] = add; g_read_set[g_reads] = set; g_read_strict[g_reads] = strict; g_read_techcor[g_reads] = techcor; }
    g_reads++; in.get(); in.get(); p->_error.severity(g_part_sev); return g_part_sev;      /* contract: the part's own descriptor holds what went wrong in it */
}
static void verif_STEPread_error(STEPcomplex *, char, int, istream &, const char *) { g_err_calls++; }
static void verif_ClearError(STEPcomplex *, int) { g_clear_calls++; }
const char *ReadStdKeyword(istream &in, std::string &buf, int) { int c = in.peek(); while (c >= 0 && c != '(' && c != ')' && c != ' ') { buf += (char)in.get(); c = in.peek(); } return buf.c_str(); }
#include "complex_extract.inc"
/* ---- writer side ---- */
static int g_w_n[2]; static STEPcomplex *g_w_part[2]; static int g_aw_calls; static STEPcomplex *g_aw_part[4]; static int g_aw_idx[4]; static const char *g_aw_sch[4];
static int verif_nattrs(STEPcomplex *p) { return p == g_w_part[0] ? g_w_n[0] : g_w_n[1]; }
static const char *verif_EntityName(STEPcomplex *p, const char *) { return p == g_w_part[0] ? "PA" : "PB"; }
static void verif_attr_write(STEPcomplex *p, int i, ostream &out, const char *sch) { if (g_aw_calls < 4) { g_aw_part[g_aw_calls] = p; g_aw_idx[g_aw_calls] = i; g_aw_sch[g_aw_calls] = sch; } g_aw_calls++; out << "@"; }
const char *StrToUpper(const char *w, std::string &s) { s = w; return s.c_str(); }
#include "complex_write_extract.inc"
static const char *verif_attr_asStr(STEPcomplex *p, int i, const char *sch) { if (g_aw_calls < 4) { g_aw_part[g_aw_calls] = p; g_aw_idx[g_aw_calls] = i; g_aw_sch[g_aw_calls] = sch; } g_aw_calls++; return "@"; }
#include "complex_write_str_extract.inc"
#include "src/clutils/errordesc.cc"
#include "verif.h"

/* C14: every part of a complex instance is read under the instance's (already shifted) id and with the SAME id offset
 * for the references inside it, against the same instance set; C03: a part that the complex type does not have is an input error */
extern "C" void h_complex_STEPread()
{
    IN(int, in_id); IN(int, in_add); IN(int, in_nparts); IN(int, in_missing); IN(int, in_partsev); IN(int, in_strict); IN(int, in_techcor);
    __CPROVER_assume(in_id >= 0 && in_add >= 0 && in_nparts >= 0 && in_nparts <= 2 && in_missing >= -1 && in_missing <= 1);
    const char *txt = in_nparts == 0 ? "()" : in_nparts == 1 ? "(A())" : "(A()B())";
    g_stream_arbitrary = 0; int n = 0; while (txt[n]) { g_stream_script[n] = txt[n]; n++; } g_stream_len = n;
    istream in; in._m_state = 0; in._m_have = 0; in._m_consumed = 0;
    STEPcomplex *sc = (STEPcomplex *)malloc(sizeof(STEPcomplex)); sc->head = 0; sc->sc = 0;
    sc->_error._userMsg._n = 0; sc->_error._userMsg._m[0] = 0; sc->_error._detailMsg._n = 0; sc->_error._detailMsg._m[0] = 0; sc->_error._severity = SEVERITY_NULL;
    __CPROVER_assume(in_partsev == SEVERITY_NULL || in_partsev == SEVERITY_USERMSG || in_partsev == SEVERITY_INCOMPLETE || in_partsev == SEVERITY_WARNING || in_partsev == SEVERITY_INPUT_ERROR);
    g_part_sev = (Severity)in_partsev;
    for (int i = 0; i < 2; i++) { g_parts[i] = (STEPcomplex *)malloc(sizeof(STEPcomplex)); g_parts[i]->_error._userMsg._n = 0; g_parts[i]->_error._userMsg._m[0] = 0; g_parts[i]->_error._detailMsg._n = 0; g_parts[i]->_error._detailMsg._m[0] = 0; g_parts[i]->_error._severity = SEVERITY_NULL; }
    InstMgrBase *set = (InstMgrBase *)malloc(8);
    g_part_lookups = g_reads = g_err_calls = g_clear_calls = 0; g_part_missing_at = in_missing;
    Severity s = sc->STEPcomplex::STEPread(in_id, in_add, set, in, 0, in_techcor != 0, in_strict != 0);
    __CPROVER_assert(sc->STEPfile_id == in_id, "C14 a complex instance takes the id it is given (the shifted one)");
    int expected = (in_missing >= 0 && in_missing < in_nparts) ? in_missing : in_nparts;
    __CPROVER_assert(g_reads == expected, "every part up to the first unknown one is read once");
    for (int i = 0; i < 2; i++) if (i < g_reads) {
        __CPROVER_assert(g_read_part[i] == g_parts[i], "parts are read in file order into the part found for their keyword");
        __CPROVER_assert(g_read_strict[i] == (in_strict != 0) && g_read_techcor[i] == (in_techcor != 0), "C15 the strict / lenient setting (and the encoding switch) reach every part of a complex instance unchanged");
        __CPROVER_assert(g_read_id[i] == in_id && g_read_add[i] == in_add && g_read_set[i] == set, "C14 every part of a complex instance is read with the instance's id, the same id offset for its references, and the same instance set");
    }
    if (in_missing >= 0 && in_missing < in_nparts) __CPROVER_assert(s <= SEVERITY_INPUT_ERROR && g_err_calls == 1, "C03 a part that the complex entity does not have is an input error");
    else {
        __CPROVER_assert(in._m_consumed == (unsigned long)n, "a well-formed complex instance is read up to and including its closing parenthesis");
        if (in_nparts == 0) __CPROVER_assert(s == SEVERITY_NULL, "no parts, no error");
    }
}

/* C03: what went wrong inside a part of a complex instance is an error of the complex instance.  (Known finding on the current
 * tree, see known_findings.json: the repair exposes a second defect that 14 tests of the unedited suite depend on.) */
extern "C" void h_complex_part_errors()
{
    IN(int, in_partsev);
    __CPROVER_assume(in_partsev == SEVERITY_NULL || in_partsev == SEVERITY_USERMSG || in_partsev == SEVERITY_INCOMPLETE || in_partsev == SEVERITY_WARNING || in_partsev == SEVERITY_INPUT_ERROR);
    const char *txt = "(A())";
    g_stream_arbitrary = 0; int n = 0; while (txt[n]) { g_stream_script[n] = txt[n]; n++; } g_stream_len = n;
    istream in; in._m_state = 0; in._m_have = 0; in._m_consumed = 0;
    STEPcomplex *sc = (STEPcomplex *)malloc(sizeof(STEPcomplex)); sc->head = 0; sc->sc = 0;
    sc->_error._userMsg._n = 0; sc->_error._userMsg._m[0] = 0; sc->_error._detailMsg._n = 0; sc->_error._detailMsg._m[0] = 0; sc->_error._severity = SEVERITY_NULL;
    g_part_sev = (Severity)in_partsev;
    for (int i = 0; i < 2; i++) { g_parts[i] = (STEPcomplex *)malloc(sizeof(STEPcomplex)); g_parts[i]->_error._userMsg._n = 0; g_parts[i]->_error._userMsg._m[0] = 0; g_parts[i]->_error._detailMsg._n = 0; g_parts[i]->_error._detailMsg._m[0] = 0; g_parts[i]->_error._severity = SEVERITY_NULL; }
    InstMgrBase *set = (InstMgrBase *)malloc(8);
    g_part_lookups = g_reads = g_err_calls = g_clear_calls = 0; g_part_missing_at = -1;
    Severity s = sc->STEPcomplex::STEPread(5, 0, set, in, 0, true, true);
    __CPROVER_assert(g_reads == 1, "the part is read");
    __CPROVER_assert(s <= (Severity)in_partsev, "C03 what went wrong inside a part of a complex instance is reported for the complex instance (its severity is at least as bad as the part's)");
}

/* C01: an externally mapped instance is written as #id=( PART(values) PART(values) ... ); - every part of the chain once, in chain order,
 * under its own (upper-case) name, with all of its attributes in order, separated by commas */
extern "C" void h_complex_STEPwrite()
{
    IN(int, in_id); IN(int, in_n0); IN(int, in_n1);
    __CPROVER_assume(in_id >= 1 && in_id < 1000000 && in_n0 >= 0 && in_n0 <= 2 && in_n1 >= 0 && in_n1 <= 2);
    for (int i = 0; i < 2; i++) { g_w_part[i] = (STEPcomplex *)malloc(sizeof(STEPcomplex)); new (&g_w_part[i]->p21Comment) std::string(); }
    g_w_part[0]->sc = g_w_part[1]; g_w_part[1]->sc = 0; g_w_part[0]->STEPfile_id = in_id; g_w_n[0] = in_n0; g_w_n[1] = in_n1; g_aw_calls = 0;
    ostream out; out._m_written = 0; const char *sch = "s";
    g_w_part[0]->STEPcomplex::STEPwrite(out, sch, 1);
    /* expected pieces */
    const char *want[16]; int k = 0;
    want[k++] = "#"; want[k++] = 0 /* the id */; want[k++] = "=(\n";
    for (int p = 0; p < 2; p++) { want[k++] = p ? "PB" : "PA"; want[k++] = "("; int n = p ? in_n1 : in_n0; for (int i = 0; i < 2; i++) if (i < n) { want[k++] = "@"; if (i < n - 1) want[k++] = ","; } want[k++] = ")\n"; }
    want[k++] = ");\n";
    __CPROVER_assert(out._m_written == (unsigned long)k, "C01 a complex instance is written as: #id=( then every part, then ); - nothing more, nothing less");
    int ok = 1;
    for (int i = 0; i < 16; i++) if (i < k && want[i]) { if (out._m_logc[i] != 'S' || strcmp(out._m_logt[i], want[i]) != 0) ok = 0; }
    __CPROVER_assert(ok, "C01 the parts of a complex instance are written in chain order, each as NAME(values) with commas between the values");
    __CPROVER_assert(g_aw_calls == in_n0 + in_n1, "C01 every attribute of every part is written exactly once");
    int ord = 1; for (int c = 0; c < 4; c++) if (c < g_aw_calls) { int p = c < in_n0 ? 0 : 1; int i = c < in_n0 ? c : c - in_n0; if (g_aw_part[c] != g_w_part[p] || g_aw_idx[c] != i || g_aw_sch[c] != sch) ord = 0; }
    __CPROVER_assert(ord, "C01 the attributes are written part by part, in declaration order, for the caller's schema");
}

/* C01: the string form of the parts of a complex instance is the same text as the stream form: NAME(values) per part, in chain order */
extern "C" void h_complex_write_string()
{
    IN(int, in_n0); IN(int, in_n1);
    __CPROVER_assume(in_n0 >= 0 && in_n0 <= 2 && in_n1 >= 0 && in_n1 <= 2);
    for (int i = 0; i < 2; i++) { g_w_part[i] = (STEPcomplex *)malloc(sizeof(STEPcomplex)); }
    g_w_part[0]->sc = g_w_part[1]; g_w_part[1]->sc = 0; g_w_n[0] = in_n0; g_w_n[1] = in_n1; g_aw_calls = 0;
    std::string buf; const char *sch = "s";
    const char *r = g_w_part[0]->STEPcomplex::WriteExtMapEntities(buf, sch);
    char want[32]; int k = 0;
    for (int p = 0; p < 2; p++) { want[k++] = 'P'; want[k++] = p ? 'B' : 'A'; want[k++] = '('; int n = p ? in_n1 : in_n0; for (int i = 0; i < 2; i++) if (i < n) { want[k++] = '@'; if (i < n - 1) want[k++] = ','; } want[k++] = ')'; want[k++] = '\n'; }
    want[k] = 0;
    __CPROVER_assert(r == buf.c_str() && strcmp(r, want) == 0, "C01 the string form of a complex instance's parts is NAME(values) per part, in chain order, commas between the values");
    __CPROVER_assert(g_aw_calls == in_n0 + in_n1, "every attribute of every part is written once");
}
