/* Unit enum_cc (CXX-FN): enumeration item reader extracted from sdaiEnum.cc */
#define instmgr_h
#define EXPDICT_H
#define private public
#define protected public
#include <iostream>
#include <sstream>
#include "cxx/verif_stream_model.h"
#include "clstepcore/sdai.h"
#undef private
#undef protected
#include <ctype.h>
#include <string.h>
#include <stdio.h>
#include <stdlib.h>
#include "clutils/Str.h"
/* ---- the enumeration described by the replaced virtual accessors: TYPE colour = ENUMERATION OF (red, green) ---- */
static int g_set_null_calls;
static int verif_no_elements(const SDAI_Enum *) { return 2; }
static const char *verif_element_at(const SDAI_Enum *, int n) { return n == 0 ? "RED" : n == 1 ? "GREEN" : "UNSET"; }
static void verif_set_null(SDAI_Enum *e) { g_set_null_calls++; e->v = 2; }
static int verif_is_null(const SDAI_Enum *e) { return e->v >= 2 || e->v < 0; }
#include "enum_extract.inc"
/* contract model of ReadEnum for its caller STEPread: it may leave any severity in the descriptor */
static Severity g_readenum_sev; static int g_readenum_calls, g_readenum_assign, g_readenum_delims;
static Severity verif_ReadEnum(SDAI_Enum *, istream &, ErrorDescriptor *err, int assign, int needDelims) { g_readenum_calls++; g_readenum_assign = assign; g_readenum_delims = needDelims; err->severity(g_readenum_sev); return g_readenum_sev; }
#include "enum_stepread_extract.inc"
#include "logical_extract.inc"
#include "src/clutils/errordesc.cc"
#include "verif.h"
const char *StrToUpper(const char *w, std::string &s) { s.clear(); for (int i = 0; i < 31 && w[i]; i++) s += (char)toupper(w[i]); return s.c_str(); }

#define EN 4
/* C09: .ITEM. is read case-insensitively to the index of the declared item it spells; an undeclared item raises an
 * error and never yields a declared index; the delimiter after the closing dot is not consumed */
extern "C" void h_ReadEnum()
{
    IN_ARR(char, in_name, EN); IN(unsigned, in_nlen); IN(int, in_dot1); IN(int, in_close);
    __CPROVER_assume(in_nlen >= 1 && in_nlen <= EN);
    for (int i = 0; i < EN; i++) if ((unsigned)i < in_nlen) __CPROVER_assume(isalpha(in_name[i]) || in_name[i] == '_' || (i > 0 && isdigit(in_name[i])));
    __CPROVER_assume(in_close >= 1 && in_close <= 255 && !isalnum(in_close) && in_close != '_');
    /* script: ['.'] name close ',' */
    int p = 0; g_stream_arbitrary = 0;
    if (in_dot1) g_stream_script[p++] = '.';
    for (int i = 0; i < EN; i++) if ((unsigned)i < in_nlen) g_stream_script[p++] = in_name[i];
    g_stream_script[p++] = (char)in_close; g_stream_script[p++] = ','; g_stream_len = p;
    __CPROVER_assume(in_dot1 || isalpha(in_name[0]));                 /* without a leading dot the token must start with a letter to be an enumeration token */
    istream in; in._m_state = 0; in._m_have = 0; in._m_consumed = 0;
    SDAI_Enum *e = (SDAI_Enum *)malloc(sizeof(SDAI_Enum)); e->v = 0;
    ErrorDescriptor err;
    Severity s = e->SDAI_Enum::ReadEnum(in, &err, 1, 1);
    /* spec */
    char up[EN + 1]; for (int i = 0; i < EN; i++) up[i] = (unsigned)i < in_nlen ? (char)toupper(in_name[i]) : 0; up[EN] = 0;
    int idx = !strcmp(up, "RED") ? 0 : !strcmp(up, "GREE") && 0 ? 1 : -1;      /* GREEN has 5 letters: not spellable within 4 */
    int well_delimited = in_dot1 && in_close == '.';
    if (idx >= 0 && well_delimited) {
        __CPROVER_assert(s == SEVERITY_NULL && e->v == idx, "C09 a declared enumeration item between dots is read, in any letter case, to its own index");
        __CPROVER_assert(in._m_consumed == (unsigned long)(p - 1), "C09 the delimiter after the closing dot of an enumeration item is not consumed");
    }
    if (idx < 0) {
        __CPROVER_assert(s <= SEVERITY_WARNING, "C09/C03 an enumeration item that is not declared raises an error");
        __CPROVER_assert(e->v == 2, "C09 an undeclared enumeration item never yields a declared index");
    }
    if (!well_delimited) __CPROVER_assert(s <= SEVERITY_WARNING, "C09 an enumeration item without its two dots raises an error in an exchange file");
    __CPROVER_assert(in._m_consumed <= (unsigned long)(p - 1), "C09 the attribute delimiter is never consumed by the enumeration reader");
    if (in_close != '.') __CPROVER_assert(in._m_consumed == (unsigned long)(p - 2), "C09 the character after an enumeration item that is not its closing dot (e.g. the attribute delimiter) is left unread");
}

/* C09/C01: writer: an enumeration value is written as its declared item name between dots, an unset one as $ */
extern "C" void h_Enum_write()
{
    IN(int, in_v);
    __CPROVER_assume(in_v >= 0 && in_v <= 2);
    SDAI_Enum *e = (SDAI_Enum *)malloc(sizeof(SDAI_Enum)); e->v = in_v;
    ostream out; out._m_written = 0;
    e->SDAI_Enum::STEPwrite(out);
    if (in_v == 2) __CPROVER_assert(out._m_written == 1 && out._m_logc[0] == '$', "C01 an unset enumeration value is written as $");
    else {
        __CPROVER_assert(out._m_written == 3 && out._m_logc[0] == 'S' && out._m_logt[0][0] == '.' && out._m_logt[0][1] == 0 && out._m_logc[2] == 'S' && out._m_logt[2][0] == '.' && out._m_logt[2][1] == 0, "C09 an enumeration value is written between dots");
        __CPROVER_assert(out._m_logc[1] == 'S' && !strcmp(out._m_logt[1], in_v == 0 ? "RED" : "GREEN"), "C09 an enumeration value is written as its declared (upper-case) item name");
    }
    /* string form, as used for aggregate elements: the buffer is shared by all elements, so earlier content must not survive */
    std::string buf; buf = "zz";
    const char *r = e->SDAI_Enum::STEPwrite(buf);
    if (in_v == 2) __CPROVER_assert(r[0] == 0, "an unset enumeration element renders as nothing");
    else __CPROVER_assert(!strcmp(r, in_v == 0 ? ".RED." : ".GREEN."), "C01/C09 the string form of an enumeration element is exactly .ITEM., whatever the shared buffer held before");
}

/* C03: STEPread forgives exactly one thing, a MISSING value of an OPTIONAL attribute; every error found by the item
 * reader (undeclared item, missing dots) survives, optional or not */
extern "C" void h_Enum_STEPread()
{
    IN(int, in_sev); IN(int, in_optional);
    __CPROVER_assume(in_sev == SEVERITY_NULL || in_sev == SEVERITY_USERMSG || in_sev == SEVERITY_INCOMPLETE || in_sev == SEVERITY_WARNING || in_sev == SEVERITY_INPUT_ERROR || in_sev == SEVERITY_BUG || in_sev == SEVERITY_EXIT || in_sev == SEVERITY_DUMP || in_sev == SEVERITY_MAX);
    istream in; in._m_state = 0; in._m_have = 0; in._m_consumed = 0; g_stream_arbitrary = 1;
    SDAI_Enum *e = (SDAI_Enum *)malloc(sizeof(SDAI_Enum)); e->v = 0;
    ErrorDescriptor err; g_readenum_sev = (Severity)in_sev; g_readenum_calls = 0;
    Severity s = e->SDAI_Enum::STEPread(in, &err, in_optional);
    __CPROVER_assert(g_readenum_calls == 1 && g_readenum_assign && g_readenum_delims, "the item reader is run once, assigning, and insisting on the dots of an exchange file");
    if (in_sev == SEVERITY_INCOMPLETE && in_optional) __CPROVER_assert(s == SEVERITY_NULL && err.severity() == SEVERITY_NULL, "a missing value of an OPTIONAL enumeration attribute is no error");
    else __CPROVER_assert(s == (Severity)in_sev && err.severity() == (Severity)in_sev, "C03 every other outcome of the item reader, in particular an undeclared item or missing dots (an error), is reported unchanged, OPTIONAL or not");
}

/* C09/C03: LOGICAL items: .T. .F. .U. in any letter case are read to true / false / unknown; any other name raises an error and
 * leaves the value unset; missing dots raise an error in an exchange file; the delimiter is never consumed */
extern "C" void h_Logical_ReadEnum()
{
    IN_ARR(char, in_name, 2); IN(unsigned, in_nlen); IN(int, in_dot1); IN(int, in_close);
    __CPROVER_assume(in_nlen >= 1 && in_nlen <= 2);
    for (int i = 0; i < 2; i++) if ((unsigned)i < in_nlen) __CPROVER_assume(isalpha(in_name[i]) || in_name[i] == '_' || (i > 0 && isdigit(in_name[i])));
    __CPROVER_assume(in_close >= 1 && in_close <= 255 && !isalnum(in_close) && in_close != '_');
    __CPROVER_assume(in_dot1 || isalpha(in_name[0]));
    int p = 0; g_stream_arbitrary = 0;
    if (in_dot1) g_stream_script[p++] = '.';
    for (int i = 0; i < 2; i++) if ((unsigned)i < in_nlen) g_stream_script[p++] = in_name[i];
    g_stream_script[p++] = (char)in_close; g_stream_script[p++] = ','; g_stream_len = p;
    istream in; in._m_state = 0; in._m_have = 0; in._m_consumed = 0;
    SDAI_LOGICAL *e = (SDAI_LOGICAL *)malloc(sizeof(SDAI_LOGICAL)); e->v = LTrue;
    ErrorDescriptor err;
    Severity s = e->SDAI_LOGICAL::ReadEnum(in, &err, 1, 1);
    char up = (char)toupper(in_name[0]);
    int idx = in_nlen == 1 ? (up == 'T' ? LTrue : up == 'F' ? LFalse : up == 'U' ? LUnknown : -1) : -1;
    int well_delimited = in_dot1 && in_close == '.';
    if (idx >= 0 && well_delimited) {
        __CPROVER_assert(s == SEVERITY_NULL && e->v == idx, "C09 .T. / .F. / .U. are read, in either letter case, to true / false / unknown");
        __CPROVER_assert(in._m_consumed == (unsigned long)(p - 1), "C09 the delimiter after the closing dot of a LOGICAL value is not consumed");
    }
    if (idx < 0) {
        __CPROVER_assert(s <= SEVERITY_WARNING, "C09/C03 a LOGICAL item other than T, F, U raises an error");
        __CPROVER_assert(e->v == LUnset, "C09 an invalid LOGICAL item leaves the value unset");
    }
    if (!well_delimited) __CPROVER_assert(s <= SEVERITY_WARNING, "C09 a LOGICAL item without its two dots raises an error in an exchange file");
    __CPROVER_assert(in._m_consumed <= (unsigned long)(p - 1), "C09 the attribute delimiter is never consumed by the LOGICAL reader");
}
