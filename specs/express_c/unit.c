/* Unit express_c: src/express/express.c compiled unmodified (Route C) */
#include <stdio.h>
#include <stdlib.h>
#include <string.h>
#include <ctype.h>
#include "verif.h"
#include "express/scope.h"   /* first inclusion must be the rewritten copy (union -> struct), see unit.json */
static FILE verif_file; static FILE *verif_fopen(const char *p, const char *m) { (void)p; (void)m; return &verif_file; }
#define fopen verif_fopen
#include "src/express/express.c"
#undef fopen

/* ---- scanner / parser entry points (stubs) ---- */
char *g_lex_filename; int g_lex_calls;
void SCAN_lex_init(char *filename, FILE *fp) { (void)fp; g_lex_filename = filename; g_lex_calls++; }
void *ParseAlloc(void *(*m)(size_t)) { (void)m; return &verif_file; }
void ParseFree(void *p, void (*f)(void *)) { (void)p; (void)f; }
void Parse(void *p, int t, YYSTYPE v, parse_data_t d) { (void)p; (void)t; (void)v; (void)d; }
perplex_t perplexFileScanner(FILE *fp) { (void)fp; return (perplex_t)&verif_file; }
void perplexFree(perplex_t s) { (void)s; }
int yylex(perplex_t s) { (void)s; return 0; }
void parserInitState(void) { }
YYSTYPE yylval; int yyerrstatus; Express yyexpresult;
int g_lookup_calls; static struct Scope_ found_schema;
void *DICTlookup(Dictionary d, char *n) { (void)d; (void)n; g_lookup_calls++; return g_lookup_calls >= 2 ? &found_schema : 0; }
/* SCANstrdup (lexact.c, decided in unit lexact_c/h_case_and_dup): a fresh copy of the string */
char *SCANstrdup(const char *s) { size_t n = strlen(s); char *r = malloc(n + 1); if (r) { for (size_t i = 0; i <= n; i++) r[i] = s[i]; } return r; }

#include "harnesses.c"
