/* Unit express_c: src/express/express.c compiled unmodified (Route C) */
#include <stdio.h>
#include <stdarg.h>
#include <stdlib.h>
#include <string.h>
#include <ctype.h>
#include "verif.h"
#include "express/scope.h"   /* first inclusion must be the rewritten copy (union -> struct), see unit.json */
static int g_fopen_fails; static FILE verif_file; static FILE *verif_fopen(const char *p, const char *m) { (void)p; (void)m; return g_fopen_fails ? 0 : &verif_file; }
#define fopen verif_fopen
/* sprintf model for the formats of express.c that matter here: "%s.exp" and "%s" copy the string (and the suffix), every write bounds-checked by cbmc */
static int g_sprintf_model;
static int verif_sprintf(char *d, const char *fmt, ...)
{
    if (!g_sprintf_model) return 0;
    va_list ap; va_start(ap, fmt); const char *s = va_arg(ap, const char *); va_end(ap);
    int k = 0; for (int i = 0; i < 310 && s[i]; i++) d[k++] = s[i];
    if (!strcmp(fmt, "%s.exp")) { d[k++] = '.'; d[k++] = 'e'; d[k++] = 'x'; d[k++] = 'p'; }
    d[k] = 0; return k;
}
#define sprintf verif_sprintf
#include "src/express/express.c"
#undef fopen
#undef sprintf

/* ---- scanner / parser entry points (stubs) ---- */
char *g_lex_filename; int g_lex_calls;
void SCAN_lex_init(char *filename, FILE *fp) { (void)fp; g_lex_filename = filename; g_lex_calls++; }
void *ParseAlloc(void *(*m)(size_t)) { (void)m; return &verif_file; }
void ParseFree(void *p, void (*f)(void *)) { (void)p; (void)f; }
void Parse(void *p, int t, YYSTYPE v, parse_data_t d) { (void)p; (void)t; (void)v; (void)d; }
perplex_t perplexFileScanner(FILE *fp) { (void)fp; return (perplex_t)&verif_file; }
void perplexFree(perplex_t s) { (void)s; }
int yylex(perplex_t s) { (void)s; return 0; }
void parserInitState(void) { }
YYSTYPE yylval; int yyerrstatus; Express yyexpresult;
int g_lookup_calls, g_lookup_never; static struct Scope_ found_schema;
void *DICTlookup(Dictionary d, char *n) { (void)d; (void)n; g_lookup_calls++; return (!g_lookup_never && g_lookup_calls >= 2) ? &found_schema : 0; }
/* SCANstrdup (lexact.c, decided in unit lexact_c/h_case_and_dup): a fresh copy of the string */
char *SCANstrdup(const char *s) { size_t n = strlen(s); char *r = malloc(n + 1); if (r) { for (size_t i = 0; i <= n; i++) r[i] = s[i]; } return r; }

#include "harnesses.c"
