/* C20: diagnostics are attributed to the file they belong to.  The scanner keeps the file-name pointer it is given
 * for the whole run (current_filename, Symbol.filename); EXPRESSfind_schema builds the name in the search-path scratch
 * buffer dir->full, which the next schema look-up overwrites - so what it hands to the scanner must be a copy. */
#define EN 6
int nondet_int(void);
void h_find_schema_filename(void)
{
    IN_ARR(char, in_name, EN + 1);
    static struct Linked_List_ path; static struct Link_ pm, p1; static Dir dir; static struct Express_ ex;
    in_name[EN] = 0;
    __CPROVER_assume(in_name[0] != 0);
    path.mark = &pm; pm.next = &p1; pm.prev = &p1; p1.next = &pm; p1.prev = &pm; p1.data = &dir;
    EXPRESS_path = &path;
    dir.full[0] = 'd'; dir.full[1] = '/'; dir.full[2] = 0; dir.leaf = dir.full + 2;
    yyexpresult = (Express)&found_schema;
    g_lookup_calls = 0; g_lex_calls = 0; print_objects_while_running = 0;
    /* sprintf( dir->leaf, "%s.exp", lower ) is libc: model its effect on the scratch buffer */
    Schema s = EXPRESSfind_schema(0, in_name);
    __CPROVER_assert(g_lex_calls == 1, "the schema file found on the search path is handed to the scanner");
    __CPROVER_assert(!__CPROVER_same_object(g_lex_filename, &dir), "C20 the file name kept by the scanner for a schema found on the search path is its own copy, not the search-path scratch buffer that the next look-up overwrites");
    (void)s;
}

/* C04-E2: the failure hook: with no EXPRESSfail installed the tools' exit status is non-zero; success is 0 */
void h_EXPRESS_fail(void)
{
    EXPRESSfail = 0; EXPRESSsucceed = 0; __ERROR_buffer_errors = false;
    int f = EXPRESS_fail((Express)0);
    int g = EXPRESS_succeed((Express)0);
    __CPROVER_assert(f != 0, "C04 EXPRESS_fail yields a non-zero exit status when no fail hook is installed");
    __CPROVER_assert(g == 0, "C04 EXPRESS_succeed yields exit status 0 when no success hook is installed");
}

/* C06: looking for the file of a referenced schema never writes outside the name and path buffers, however long the name is */
void h_find_schema_long(void)
{
    IN(unsigned, in_len);
    static char name[304]; static struct Linked_List_ path; static struct Link_ pm, p1; static Dir dir;
    __CPROVER_assume(in_len >= 1 && in_len <= 300);
    for (unsigned i = 0; i < 304; i++) name[i] = i < in_len ? 'X' : 0;
    path.mark = &pm; pm.next = &p1; pm.prev = &p1; p1.next = &pm; p1.prev = &pm; p1.data = &dir;
    EXPRESS_path = &path;
    dir.full[0] = 'd'; dir.full[1] = '/'; dir.full[2] = 0; dir.leaf = dir.full + 2;
    g_lookup_calls = 0; g_lex_calls = 0; print_objects_while_running = 0; g_fopen_fails = 1; g_sprintf_model = 1;
    g_lookup_never = 1;
    Schema s = EXPRESSfind_schema(0, name);
    __CPROVER_assert(s == 0, "a schema that is neither in the model nor on the search path is not found");
    g_sprintf_model = 0; g_fopen_fails = 0; g_lookup_never = 0;
}
